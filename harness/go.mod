module verif/harness

go 1.26.8

require (
	github.com/anishathalye/porcupine v1.3.0
	github.com/aperturerobotics/util v0.0.0
	pgregory.net/rapid v1.3.0
)

require (
	github.com/aperturerobotics/protobuf-go-lite v0.8.0 // indirect
	github.com/pkg/errors v0.9.1 // indirect
	golang.org/x/exp v0.0.0-20241108190413-2d47ceb2692f // indirect
)

replace github.com/aperturerobotics/util => /repo
