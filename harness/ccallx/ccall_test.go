// Package ccallx decides C17 (ccall.CallConcurrently).
package ccallx

import (
	"context"
	"encoding/json"
	"fmt"
	"strings"
	"sync"
	"testing"

	"github.com/aperturerobotics/util/ccall"
	"pgregory.net/rapid"
	"verif/harness/ev"
	"verif/harness/sched"
)

const P = "C17"

// Fn scripts one function.
type Fn struct {
	Nil bool   `json:"nil,omitempty"`
	Out string `json:"out"` // nil err canceled block
	// Then is what a "block" function returns once its context is cancelled: nil ctx err
	Then string `json:"then,omitempty"`
}

// Case is an argument list, a caller-cancel point and a schedule.
type Case struct {
	Fns      []Fn   `json:"fns"`
	CancelAt int    `json:"cancel_at"`          // -1 never; 0 before the call; k>0 after k grants
	Deadline bool   `json:"deadline,omitempty"` // the caller's context ends like a deadline: its Err() is DeadlineExceeded
	Own      bool   `json:"own,omitempty"`      // the caller's context is a type of its own (derived contexts hear of its end through a goroutine)
	Sched    []byte `json:"sched"`
}

func genCase(t *rapid.T) Case {
	fn := rapid.Custom(func(t *rapid.T) Fn {
		f := Fn{Out: rapid.SampledFrom([]string{"nil", "nil", "nil", "err", "err", "err", "canceled", "canceled", "wrapcanceled", "deadline", "block", "block", "hang"}).Draw(t, "out")}
		f.Nil = rapid.IntRange(0, 7).Draw(t, "isnil") == 0
		if f.Out == "block" {
			f.Then = rapid.SampledFrom([]string{"ctx", "nil", "err"}).Draw(t, "then")
		}
		return f
	})
	c := Case{Fns: rapid.SliceOfN(fn, 0, ev.Pick(6, 8)).Draw(t, "fns"), CancelAt: -1}
	// one case in eight has a long argument list: nil entries (which start nothing) in front of
	// and between the functions, so that the functions sit at positions around 32, 64, 128, 256
	if len(c.Fns) > 0 && rapid.IntRange(0, 7).Draw(t, "long") == 0 {
		pad := rapid.SampledFrom([]int{30, 31, 32, 62, 63, 64, 65, 126, 127, 128, 254, 255, 256, 257}).Draw(t, "pad")
		split := rapid.IntRange(0, len(c.Fns)).Draw(t, "pad_at")
		long := append([]Fn{}, c.Fns[:split]...)
		for i := 0; i < pad; i++ {
			long = append(long, Fn{Nil: true, Out: "nil"})
		}
		c.Fns = append(long, c.Fns[split:]...)
	}
	if rapid.IntRange(0, 2).Draw(t, "cancels") == 0 {
		c.CancelAt = rapid.IntRange(0, 30).Draw(t, "cancel_at")
		c.Deadline = rapid.IntRange(0, 2).Draw(t, "deadline") == 0
		c.Own = !c.Deadline && rapid.IntRange(0, 2).Draw(t, "own") == 0
	}
	c.Sched = sched.GenSchedule(t, ev.Pick(100, 300))
	return c
}

type fnState struct {
	spec     Fn
	entered  int
	returned bool
	err      error
	ctx      context.Context
}

func run(t *testing.T, cs Case) *ev.Verdict {
	v := &ev.Verdict{}
	canon, _ := json.Marshal(struct {
		Fns      []Fn
		CancelAt int
	}{cs.Fns, cs.CancelAt})
	v.Canon = string(canon)
	c, berr := sched.Run(t, []string{"broadcast.lock", "broadcast.unlocked"}, cs.Sched, func(c *sched.Ctl) { body(c, cs, v) })
	v.Trace = c.Trace()
	if c.Prio {
		v.Class("priority-schedule")
	}
	if c.Mix {
		v.Class("uniform-decisions")
	}
	if c.StepLimit {
		v.Infra = "step limit exceeded"
	}
	if berr != "" && len(v.Viol) == 0 {
		v.Add(P, "ccall:leak", "bubble ended with blocked goroutines: %s", berr)
	}
	return v
}

func body(c *sched.Ctl, cs Case, v *ev.Verdict) {
	var hm, vm sync.Mutex
	fail := func(sig, f string, a ...any) {
		vm.Lock()
		v.Add(P, sig, f, a...)
		vm.Unlock()
	}
	sts := make([]*fnState, len(cs.Fns))
	fns := make([]ccall.CallConcurrentlyFunc, len(cs.Fns))
	errOf := func(i int) error { return fmt.Errorf("fn-error-%d", i) }
	errs := make([]error, len(cs.Fns))
	// functions of kind "hang" do not look at their context at all: they are busy until the
	// harness lets them go, which is after the quiescence verdict
	hangRelease := make(chan struct{})
	for i, spec := range cs.Fns {
		st := &fnState{spec: spec}
		sts[i] = st
		errs[i] = errOf(i)
		if spec.Out == "wrapcanceled" {
			errs[i] = fmt.Errorf("fn-error-%d: %w", i, context.Canceled)
		}
		if spec.Out == "deadline" {
			errs[i] = context.DeadlineExceeded
		}
		if spec.Nil {
			continue
		}
		fns[i] = func(ctx context.Context) (rerr error) {
			c.Adopt(fmt.Sprintf("f%d", i))
			hm.Lock()
			st.entered++
			st.ctx = ctx
			hm.Unlock()
			defer func() {
				hm.Lock()
				st.returned, st.err = true, rerr
				hm.Unlock()
			}()
			c.Park("h.fn")
			switch spec.Out {
			case "nil":
				return nil
			case "err":
				return errs[i]
			case "canceled":
				return context.Canceled
			case "wrapcanceled", "deadline":
				// an error that merely wraps context.Canceled, or context.DeadlineExceeded (say from
				// the function's own timeout), is an error "other than context.Canceled"
				return errs[i]
			case "hang":
				if len(cs.Fns) == 1 {
					// a single function is run on the caller's goroutine: the call is that function
					<-ctx.Done()
					return ctx.Err()
				}
				<-hangRelease
				return nil
			default:
				<-ctx.Done()
				c.Park("h.fn.unblocked")
				switch spec.Then {
				case "nil":
					return nil
				case "err":
					return errs[i]
				}
				return ctx.Err()
			}
		}
	}
	ctx, cancel := context.WithCancel(context.Background())
	if cs.Deadline {
		ctx = deadlineLike{ctx}
	}
	if cs.Own {
		ctx, cancel = newOwnCtx()
	}
	callerCancelled := false
	if cs.CancelAt == 0 {
		cancel()
		callerCancelled = true
	}
	var callReturned bool
	var result error
	type snap struct {
		returned bool
		err      error
		ctxDead  bool
		entered  int
	}
	var snaps []snap
	cancelledBeforeReturn := false
	callerParkedWhileFnFinished := false
	c.OnGrant(func(tk *sched.Ticket) {
		if strings.HasPrefix(tk.Label, "f") && tk.Point == "broadcast.lock" {
			for _, p := range c.Pending() {
				if p.Label == "call" && p.Point == "broadcast.unlocked" {
					callerParkedWhileFnFinished = true
				}
			}
		}
	})
	c.Go("call", func() {
		err := ccall.CallConcurrently(ctx, fns...)
		hm.Lock()
		defer hm.Unlock()
		callReturned, result = true, err
		cancelledBeforeReturn = callerCancelled
		for _, st := range sts {
			s := snap{returned: st.returned, err: st.err, entered: st.entered}
			if st.ctx != nil {
				s.ctxDead = st.ctx.Err() != nil
			}
			snaps = append(snaps, s)
		}
	})
	for step := 1; ; step++ {
		if !c.Step() {
			break
		}
		if step == cs.CancelAt {
			hm.Lock()
			callerCancelled = true
			hm.Unlock()
			cancel()
		}
	}
	// full quiescence: the call must have returned unless a function is still blocked
	hm.Lock()
	if p := c.Panics(); p != "" {
		fail("ccall:panic", "CallConcurrently panicked for %d functions (%d nil): %s", len(cs.Fns), countNil(cs.Fns), firstLine(p))
	} else if !callReturned {
		blocked := false
		var realErr error
		for _, st := range sts {
			if st.entered > 0 && !st.returned {
				blocked = true
			}
			if st.returned && st.err != nil && st.err != context.Canceled {
				realErr = st.err
			}
		}
		if realErr != nil {
			// a function has returned an error other than context.Canceled (and finished its
			// bookkeeping: everything is quiescent): the call must return such an error now,
			// whatever the other functions are doing
			fail("ccall:error-not-propagated", "CallConcurrently is still blocked at full quiescence although a function returned %v (other functions still running: %v)", realErr, blocked)
		}
		if !blocked || callerCancelled {
			fail("ccall:call-blocked", "CallConcurrently is still blocked at full quiescence (caller cancelled=%v, some function still running=%v)", callerCancelled, blocked)
		}
	} else {
		nonNil := 0
		allNil := true
		var nonCanceled, canceled bool
		inReturned := false
		for i, s := range snaps {
			if cs.Fns[i].Nil {
				continue
			}
			nonNil++
			if !s.returned || s.err != nil {
				allNil = false
			}
			if s.returned && s.err != nil {
				if s.err == context.Canceled {
					canceled = true
				} else {
					nonCanceled = true
				}
				if s.err == result {
					inReturned = true
				}
			}
			if s.entered > 0 && !s.ctxDead {
				fail("ccall:ctx-not-cancelled", "after CallConcurrently returned %v the context given to function %d is still live", result, i)
			}
		}
		switch {
		case result == nil:
			if !allNil {
				fail("ccall:nil-despite-failure", "CallConcurrently returned nil although not every function had returned nil: %s", describe(cs.Fns, snaps))
			}
		case result == context.Canceled:
			if !cancelledBeforeReturn && !canceled {
				fail("ccall:spurious-canceled", "CallConcurrently returned context.Canceled but the caller was not cancelled and no function returned it: %s", describe(cs.Fns, snaps))
			}
			if !cancelledBeforeReturn && nonCanceled {
				fail("ccall:canceled-masks-error", "CallConcurrently returned context.Canceled although a function returned another error and the caller was not cancelled: %s", describe(cs.Fns, snaps))
			}
		default:
			if !inReturned {
				fail("ccall:invented-error", "CallConcurrently returned %v which no function had returned: %s", result, describe(cs.Fns, snaps))
			}
		}
		if result == nil && nonCanceled {
			// covered by nil-despite-failure
		}
	}
	hm.Unlock()

	c.PassThrough()
	hadViol := len(v.Viol) > 0
	close(hangRelease)
	cancel()
	c.Wait()
	hm.Lock()
	if !hadViol {
		if !callReturned {
			fail("ccall:stuck-after-cancel", "CallConcurrently never returned although the caller's context was cancelled")
		}
		for i, st := range sts {
			if cs.Fns[i].Nil {
				if st.entered != 0 {
					fail("ccall:nil-called", "nil entry %d was called", i)
				}
				continue
			}
			if st.entered != 1 {
				fail("ccall:invocation-count", "function %d was entered %d times, want exactly once (%d functions)", i, st.entered, len(cs.Fns))
			}
		}
	}
	hm.Unlock()
	if !hadViol && len(v.Viol) == 0 {
		// the same argument slice is used for a second call (context already cancelled, so
		// blocking functions return at once): again every non-nil entry runs exactly once
		for i := range fns {
			if (fns[i] == nil) != cs.Fns[i].Nil {
				fail("ccall:arguments-modified", "after the call entry %d of the caller's argument slice is nil=%v, it was nil=%v before", i, fns[i] == nil, cs.Fns[i].Nil)
			}
		}
		_ = ccall.CallConcurrently(ctx, fns...)
		c.Wait()
		hm.Lock()
		for i, st := range sts {
			want := 2
			if cs.Fns[i].Nil {
				want = 0
			}
			if st.entered != want && len(v.Viol) == 0 {
				fail("ccall:invocation-count", "after a second call with the same argument slice function %d has been entered %d times in total, want %d", i, st.entered, want)
			}
		}
		hm.Unlock()
	}
	nErr := 0
	for _, f := range cs.Fns {
		if !f.Nil && (f.Out == "err" || f.Out == "canceled" || f.Out == "wrapcanceled" || f.Out == "deadline") {
			nErr++
		}
	}
	nn := len(cs.Fns) - countNil(cs.Fns)
	if nn >= 2 && nErr >= 1 && callerParkedWhileFnFinished {
		v.SetNT(P)
		v.Class("caller-parked-while-function-finished")
	}
	if countNil(cs.Fns) > 0 {
		v.Class("nil-entries")
	}
	if len(cs.Fns) > 64 {
		v.Class("more-than-64-arguments")
	}
	if nn <= 1 {
		v.Class("zero-or-one-function")
	}
	if cs.CancelAt >= 0 {
		v.Class("caller-cancel")
	}
	if cs.Deadline {
		v.Class("caller-context-ends-with-deadline-exceeded")
	}
	for _, f := range cs.Fns {
		if !f.Nil && f.Out == "hang" && len(cs.Fns) > 1 {
			v.Class("function-ignores-its-context")
			break
		}
	}
}

// deadlineLike is a context that ends the way an expired deadline does: Done
// closes and Err reports context.DeadlineExceeded (its children are cancelled
// as usual). CallConcurrently must still answer context.Canceled.
type deadlineLike struct{ context.Context }

// ownCtx is a caller-defined context type: context.WithCancel(ownCtx) has to watch its Done
// channel from a goroutine, so a derived context is cancelled a little after the parent.
type ownCtx struct {
	context.Context
	mu   sync.Mutex
	done chan struct{}
	err  error
}

func newOwnCtx() (context.Context, context.CancelFunc) {
	c := &ownCtx{Context: context.Background(), done: make(chan struct{})}
	return c, func() {
		c.mu.Lock()
		if c.err == nil {
			c.err = context.Canceled
			close(c.done)
		}
		c.mu.Unlock()
	}
}

func (c *ownCtx) Done() <-chan struct{} { return c.done }

func (c *ownCtx) Err() error {
	c.mu.Lock()
	defer c.mu.Unlock()
	return c.err
}

func (d deadlineLike) Err() error {
	if d.Context.Err() != nil {
		return context.DeadlineExceeded
	}
	return nil
}

func countNil(f []Fn) int {
	n := 0
	for _, x := range f {
		if x.Nil {
			n++
		}
	}
	return n
}

func firstLine(s string) string {
	if i := strings.IndexByte(s, '\n'); i > 0 {
		return s[:i]
	}
	return s
}

func describe(fns []Fn, snaps any) string {
	b, _ := json.Marshal(fns)
	return fmt.Sprintf("fns=%s state-at-return=%+v", b, snaps)
}

func TestC17(t *testing.T) {
	ev.Drive(t, ev.Runner[Case]{
		Prop: P,
		Rule: "argument list of 0..8 functions incl. nil entries; each function scripted {nil, distinct error, context.Canceled, block until its ctx is cancelled then return nil|err|ctx.Err()}, parked at entry so that the schedule decides completion order relative to every Broadcast critical section of the caller; optional caller cancel before the call or after k grants (1/3 of them through a context whose Err() is DeadlineExceeded); non-trivial iff >= 2 non-nil functions, >= 1 failing, and the caller was parked right after one of its critical sections while a function's bookkeeping section ran; distinct by hash(case, realised grant trace)",
		Gen:  genCase,
		Run:  run,
	})
}
