// Package ev drives a generated check: regression cases first, then a rapid
// run; it journals every case, records evidence counters, saves failing cases
// as replay files and honours the known-findings list.
package ev

import (
	"encoding/binary"
	"encoding/json"
	"fmt"
	"hash/fnv"
	"os"
	"path/filepath"
	"sort"
	"strconv"
	"strings"
	"testing"

	"pgregory.net/rapid"
	"verif/harness/sched"
)

// Violation is one oracle failure.
type Violation struct {
	Prop string `json:"prop"`
	Sig  string `json:"sig"`
	Msg  string `json:"msg"`
}

// Verdict is the outcome of executing one case.
type Verdict struct {
	Viol []Violation `json:"viol,omitempty"`
	// Trace is the realised schedule (granted tickets) or other realised history.
	Trace []string `json:"trace,omitempty"`
	// Canon is the canonical form of the case used for distinctness.
	Canon string `json:"-"`
	// NonTrivial per property id.
	NonTrivial map[string]bool `json:"nontrivial,omitempty"`
	// Classes are class counters this case contributes to.
	Classes []string `json:"classes,omitempty"`
	// OpsTotal / OpsEffective measure how many generated ops had an eligible target.
	OpsTotal     int `json:"ops_total,omitempty"`
	OpsEffective int `json:"ops_effective,omitempty"`
	// Infra is set for harness-level trouble (never a violation).
	Infra string `json:"infra,omitempty"`
}

// Add appends a violation.
func (v *Verdict) Add(prop, sig, format string, a ...any) {
	v.Viol = append(v.Viol, Violation{Prop: prop, Sig: sig, Msg: fmt.Sprintf(format, a...)})
}

// Class adds a class label (once).
func (v *Verdict) Class(name string) {
	for _, c := range v.Classes {
		if c == name {
			return
		}
	}
	v.Classes = append(v.Classes, name)
}

// SetNT marks the case non-trivial for prop.
func (v *Verdict) SetNT(prop string) {
	if v.NonTrivial == nil {
		v.NonTrivial = map[string]bool{}
	}
	v.NonTrivial[prop] = true
}

// For returns the first violation of prop.
func (v *Verdict) For(prop string) *Violation {
	for i := range v.Viol {
		if v.Viol[i].Prop == prop {
			return &v.Viol[i]
		}
	}
	return nil
}

// ReplayFile is the on-disk form of a failing / regression case.
type ReplayFile struct {
	Property string          `json:"property"`
	Check    string          `json:"check"`
	Case     json.RawMessage `json:"case"`
	Trace    []string        `json:"trace,omitempty"`
	Sig      string          `json:"sig,omitempty"`
	Message  string          `json:"message,omitempty"`
	Note     string          `json:"note,omitempty"`
}

// Stats is what a test process reports to the driver.
type Stats struct {
	Property     string            `json:"property"`
	Check        string            `json:"check"`
	Cases        int               `json:"cases"`
	NonTrivial   int               `json:"nontrivial"`
	Distinct     int               `json:"distinct_nontrivial"`
	Classes      map[string]int    `json:"classes"`
	OpsTotal     int               `json:"ops_total"`
	OpsEffective int               `json:"ops_effective"`
	Samples      []json.RawMessage `json:"samples"`
	KnownHits    map[string]int    `json:"known_hits"`
	Regress      []RegressResult   `json:"regress"`
	Infra        []string          `json:"infra,omitempty"`
	Rule         string            `json:"rule"`
	hashes       map[uint64]struct{}
}

// RegressResult is the outcome of replaying one committed regression case.
type RegressResult struct {
	File       string `json:"file"`
	Runs       int    `json:"runs"`
	Reproduced int    `json:"reproduced"`
	Sig        string `json:"sig,omitempty"`
	Msg        string `json:"msg,omitempty"`
}

// Runner describes one check.
type Runner[C any] struct {
	Prop string
	// Rule is the textual non-triviality / distinctness rule.
	Rule string
	Gen  func(t *rapid.T) C
	Run  func(t *testing.T, c C) *Verdict
	// ReplayRuns is how often a regression / replay case is executed (schedule
	// replay is almost, not fully, deterministic). Default 20.
	ReplayRuns int
}

// Thorough reports whether the thorough tier bounds should be used.
func Thorough() bool { return os.Getenv("VERIF_TIER") == "thorough" }

// Pick returns q in the quick tier and t in the thorough tier.
func Pick(q, t int) int {
	if Thorough() {
		return t
	}
	return q
}

func outDir() string {
	d := os.Getenv("VERIF_OUT")
	if d == "" {
		d = os.TempDir()
	}
	return d
}

func known() map[string]bool {
	m := map[string]bool{}
	for _, s := range strings.Split(os.Getenv("VERIF_KNOWN"), ",") {
		if s = strings.TrimSpace(s); s != "" {
			m[s] = true
		}
	}
	return m
}

// KnownOpen reports whether sig is listed as an open known finding for this run.
// During regression / replay runs nothing is excluded, so that an open finding's
// own case still reaches the defect.
func KnownOpen(sig string) bool { return !inRegress && known()[sig] }

var inRegress bool

var curCase []byte
var curProp, curCheck string

// CurrentCaseJSON returns the case being executed (for the hang watchdog).
func CurrentCaseJSON() []byte { return curCase }

// SaveHang writes the running case as replay file; used by the watchdog.
func SaveHang() {
	rf := ReplayFile{Property: curProp, Check: curCheck, Case: curCase, Sig: "hang", Message: "case did not reach quiescence (spin or mutex deadlock)"}
	b, _ := json.MarshalIndent(rf, "", " ")
	_ = os.WriteFile(filepath.Join(outDir(), "hang.json"), b, 0o644)
}

// Drive runs the check.
func Drive[C any](t *testing.T, r Runner[C]) {
	out := outDir()
	_ = os.MkdirAll(out, 0o755)
	if r.ReplayRuns == 0 {
		r.ReplayRuns = 20
	}
	kn := known()
	curProp, curCheck = r.Prop, t.Name()
	sched.SetOnHang(SaveHang)
	st := &Stats{Property: r.Prop, Check: t.Name(), Classes: map[string]int{}, KnownHits: map[string]int{}, Rule: r.Rule, hashes: map[uint64]struct{}{}}
	defer st.flush(filepath.Join(out, "stats.json"), filepath.Join(out, "hashes.bin"))

	jf, _ := os.OpenFile(filepath.Join(out, "journal.json"), os.O_CREATE|os.O_RDWR|os.O_TRUNC, 0o644)
	// the case before the current one is kept too: a goroutine the library leaves behind can
	// bring the process down while the next case is running
	jp, _ := os.OpenFile(filepath.Join(out, "journal.prev.json"), os.O_CREATE|os.O_RDWR|os.O_TRUNC, 0o644)
	journal := func(b []byte) {
		if jp != nil && len(curCase) > 0 {
			_, _ = jp.WriteAt(curCase, 0)
			_ = jp.Truncate(int64(len(curCase)))
		}
		curCase = b
		if jf != nil {
			_, _ = jf.WriteAt(b, 0)
			_ = jf.Truncate(int64(len(b)))
		}
	}
	saveFail := func(name string, cj []byte, v *Verdict, viol *Violation) string {
		rf := ReplayFile{Property: r.Prop, Check: t.Name(), Case: cj, Trace: v.Trace, Sig: viol.Sig, Message: viol.Msg}
		b, _ := json.MarshalIndent(rf, "", " ")
		p := filepath.Join(out, name)
		_ = os.WriteFile(p, b, 0o644)
		return p
	}

	// replay mode
	if rp := os.Getenv("VERIF_REPLAY"); rp != "" {
		inRegress = true
		rf, c, err := loadReplay[C](rp)
		if err != nil {
			t.Fatalf("INFRA cannot load replay %s: %v", rp, err)
		}
		n := 50
		if s := os.Getenv("VERIF_REPLAY_RUNS"); s != "" {
			n, _ = strconv.Atoi(s)
		}
		rep := 0
		var last *Violation
		var lastV *Verdict
		for i := 0; i < n; i++ {
			journal(rf.Case)
			v := r.Run(t, c)
			if viol := v.For(r.Prop); viol != nil {
				rep++
				last, lastV = viol, v
			}
		}
		fmt.Printf("REPLAY property=%s file=%s reproduced=%d/%d\n", r.Prop, rp, rep, n)
		if last != nil {
			fmt.Printf("REPLAY-VIOLATION sig=%s\n%s\ntrace: %s\n", last.Sig, last.Msg, shortTrace(lastV.Trace))
			t.Fail()
		}
		return
	}

	// regression cases
	if dir := os.Getenv("VERIF_REGRESS"); dir != "" {
		inRegress = true
		files, _ := filepath.Glob(filepath.Join(dir, "*.json"))
		sort.Strings(files)
		for _, f := range files {
			rf, c, err := loadReplay[C](f)
			if rf != nil && rf.Check != "" && rf.Check != t.Name() {
				continue // another unit's case type
			}
			if err != nil {
				t.Fatalf("INFRA cannot load regression case %s: %v", f, err)
			}
			rr := RegressResult{File: f, Runs: r.ReplayRuns}
			for i := 0; i < r.ReplayRuns; i++ {
				journal(rf.Case)
				v := r.Run(t, c)
				if viol := v.For(r.Prop); viol != nil {
					rr.Reproduced++
					rr.Sig, rr.Msg = viol.Sig, viol.Msg
				}
			}
			st.Regress = append(st.Regress, rr)
			if rr.Reproduced > 0 && !kn[rr.Sig] {
				fmt.Printf("FAILCASE property=%s sig=%s replay=%s\n%s\n", r.Prop, rr.Sig, f, rr.Msg)
				t.Fatalf("regression case %s violates %s: [%s] %s", f, r.Prop, rr.Sig, rr.Msg)
			}
		}
	}

	inRegress = false
	firstSig := ""
	rapid.Check(t, func(rt *rapid.T) {
		c := r.Gen(rt)
		cj, err := json.Marshal(c)
		if err != nil {
			rt.Fatalf("INFRA marshal: %v", err)
		}
		journal(cj)
		v := r.Run(t, c)
		st.Cases++
		st.OpsTotal += v.OpsTotal
		st.OpsEffective += v.OpsEffective
		if v.Infra != "" {
			if len(st.Infra) < 5 {
				st.Infra = append(st.Infra, v.Infra)
			}
			saveFail("infra-last.json", cj, v, &Violation{Prop: r.Prop, Sig: "infra", Msg: v.Infra})
			rt.Fatalf("INFRA %s", v.Infra)
		}
		for _, cl := range v.Classes {
			st.Classes[cl]++
		}
		if v.NonTrivial[r.Prop] {
			st.NonTrivial++
			h := fnv.New64a()
			if v.Canon != "" {
				h.Write([]byte(v.Canon))
			} else {
				h.Write(cj)
			}
			for _, s := range v.Trace {
				h.Write([]byte{0})
				h.Write([]byte(s))
			}
			k := h.Sum64()
			if _, ok := st.hashes[k]; !ok {
				st.hashes[k] = struct{}{}
				if len(st.Samples) < 3 {
					tr := v.Trace
					if len(tr) > 60 {
						tr = append(append([]string{}, tr[:60]...), "…")
					}
					s, _ := json.Marshal(map[string]any{"case": json.RawMessage(cj), "realised_trace": tr, "classes": v.Classes})
					st.Samples = append(st.Samples, s)
				}
			}
		}
		if viol := v.For(r.Prop); viol != nil {
			if kn[viol.Sig] {
				st.KnownHits[viol.Sig]++
				return
			}
			// shrink towards the first failure's root cause only
			if firstSig == "" {
				firstSig = viol.Sig
			} else if viol.Sig != firstSig {
				return
			}
			p := saveFail("fail-last.json", cj, v, viol)
			rt.Fatalf("VIOL property=%s sig=%s file=%s\n%s\ntrace: %s", r.Prop, viol.Sig, p, viol.Msg, shortTrace(v.Trace))
		}
	})
}

func shortTrace(tr []string) string {
	if len(tr) > 120 {
		return strings.Join(tr[:90], " ") + fmt.Sprintf(" …(%d more)… ", len(tr)-110) + strings.Join(tr[len(tr)-20:], " ")
	}
	return strings.Join(tr, " ")
}

func loadReplay[C any](path string) (*ReplayFile, C, error) {
	var c C
	b, err := os.ReadFile(path)
	if err != nil {
		return nil, c, err
	}
	var rf ReplayFile
	if err := json.Unmarshal(b, &rf); err != nil {
		return nil, c, err
	}
	if err := json.Unmarshal(rf.Case, &c); err != nil {
		return &rf, c, err
	}
	return &rf, c, nil
}

func (s *Stats) flush(path, hpath string) {
	s.Distinct = len(s.hashes)
	b, _ := json.MarshalIndent(s, "", " ")
	_ = os.WriteFile(path, b, 0o644)
	hs := make([]uint64, 0, len(s.hashes))
	for h := range s.hashes {
		hs = append(hs, h)
	}
	sort.Slice(hs, func(i, j int) bool { return hs[i] < hs[j] })
	buf := make([]byte, 8*len(hs))
	for i, h := range hs {
		binary.LittleEndian.PutUint64(buf[8*i:], h)
	}
	_ = os.WriteFile(hpath, buf, 0o644)
}
