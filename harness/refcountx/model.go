// Package refcountx decides C08, C09 and C10 (refcount.RefCount).
package refcountx

// Reference model (DESIGN.md Appendix A.4), advanced in the order in which the
// controller grants the RefCount mutex sections.

type cbEvent struct {
	resolved bool
	val      int
	err      error
}

type valueRec struct {
	id       int // value id (0 for error results)
	callID   int
	hasRel   bool
	relCount int  // real invocations of the release func
	expected bool // the model says it must have been released by now
	stored   bool // the result was stored in the container (not a stale result)
	err      error
}

type mCall struct {
	id        int
	nonce     int
	ctxID     int
	cancelled bool // model: its context is cancelled
	applied   bool
	inst      *callInst
}

type mRef struct {
	id       int
	kind     string // nil | rec | wait | waitrel | access
	live     bool
	expected []cbEvent // callbacks the model says this reference must receive
	cons     *consumer
}

type rcModel struct {
	ctxID    int
	keep     bool
	refs     []*mRef
	nonce    int
	resolved bool
	val      int
	err      error
	cur      *valueRec // value whose release func the container holds
	calls    []*mCall
	unbound  []*mCall
	curCall  *mCall
	values   []*valueRec
	restarts int
	// observable container contents
	target    int
	targetErr error
}

func (m *rcModel) liveRefs() int {
	n := 0
	for _, r := range m.refs {
		if r.live {
			n++
		}
	}
	return n
}

func (m *rcModel) deliver(ev cbEvent) {
	for _, r := range m.refs {
		if r.live && r.kind != "nil" {
			r.expected = append(r.expected, ev)
		}
	}
}

// shutdown mirrors shutdown() + clearResolvedState().
func (m *rcModel) shutdown() {
	m.nonce++
	if m.resolved {
		m.resolved = false
		m.targetErr = nil
		m.target = 0
		m.val, m.err = 0, nil
		m.deliver(cbEvent{})
	}
	if m.curCall != nil {
		m.curCall.cancelled = true
		m.curCall = nil
	}
	if m.cur != nil {
		m.cur.expected = true
		m.cur = nil
	}
}

func (m *rcModel) startResolve() {
	m.shutdown()
	if m.ctxID == 0 || m.liveRefs() == 0 {
		return
	}
	c := &mCall{id: len(m.calls), nonce: m.nonce, ctxID: m.ctxID}
	m.calls = append(m.calls, c)
	m.unbound = append(m.unbound, c)
	m.curCall = c
	m.restarts++
}

// SetContext returns the documented result.
func (m *rcModel) SetContext(cid int) bool {
	if cid == m.ctxID {
		return false
	}
	m.ctxID = cid
	m.startResolve()
	return true
}

// AddRef registers ref.
func (m *rcModel) AddRef(r *mRef) {
	r.live = true
	m.refs = append(m.refs, r)
	if m.liveRefs() == 1 && !m.resolved {
		m.startResolve()
	} else if m.resolved && r.kind != "nil" {
		r.expected = append(r.expected, cbEvent{true, m.val, m.err})
	}
}

// RemoveRef mirrors removeRef (first Release of a reference).
func (m *rcModel) RemoveRef(r *mRef) {
	if !r.live {
		return
	}
	r.live = false
	if m.liveRefs() == 0 {
		if !m.keep || !m.resolved || m.err != nil {
			m.shutdown()
		}
	}
}

// Apply is the resolve goroutine's section after the resolver returned.
func (m *rcModel) Apply(c *mCall, v *valueRec) {
	c.applied = true
	if c.nonce != m.nonce {
		v.expected = true // stale result: released at once
		return
	}
	m.resolved = true
	v.stored = true
	m.val, m.err = v.id, v.err
	if v.hasRel {
		m.cur = v
	}
	if v.err != nil {
		m.targetErr = v.err
	} else {
		m.targetErr = nil
		m.target = v.id
	}
	m.deliver(cbEvent{true, v.id, v.err})
}

// Released is the section of a released() callback of call c.
func (m *rcModel) Released(c *mCall) {
	if c.nonce == m.nonce {
		m.startResolve()
	}
}

// state returns the latest state delivered to (or visible for) a reference.
func (r *mRef) state() cbEvent {
	if len(r.expected) == 0 {
		return cbEvent{}
	}
	return r.expected[len(r.expected)-1]
}
