package refcountx

import (
	"context"
	"encoding/json"
	"fmt"
	"strings"
	"sync"
	"testing"

	"github.com/aperturerobotics/util/ccontainer"
	"github.com/aperturerobotics/util/refcount"
	"pgregory.net/rapid"
	"verif/harness/ev"
	"verif/harness/sched"
)

// Op is one generated operation.
type Op struct {
	K    string `json:"k"`
	Cb   string `json:"cb,omitempty"`   // addref: rec | nil
	Ctx  string `json:"ctx,omitempty"`  // setctx: new same nil
	Out  string `json:"out,omitempty"`  // finish: val valnorel err errrel ; finishcb: nil err
	Kind string `json:"kind,omitempty"` // consumer: wait resolve resolverel access
	Rel  bool   `json:"rel,omitempty"`  // resolverel: pass a released callback
	Pre  bool   `json:"pre,omitempty"`
	Pick int    `json:"pick,omitempty"`
}

// Case is a generated configuration, history and schedule.
type Case struct {
	Keep      bool   `json:"keep"`
	Target    bool   `json:"target"`
	TargetErr bool   `json:"targeterr"`
	InitCtx   bool   `json:"initctx"`
	Ops       []Op   `json:"ops"`
	Sched     []byte `json:"sched"`
}

func genCase(prop string) func(t *rapid.T) Case {
	return func(t *rapid.T) Case {
		c := Case{
			Keep:      rapid.Bool().Draw(t, "keep"),
			Target:    rapid.IntRange(0, 3).Draw(t, "target") != 0,
			TargetErr: rapid.IntRange(0, 3).Draw(t, "targeterr") != 0,
			InitCtx:   rapid.IntRange(0, 2).Draw(t, "initctx") != 0,
		}
		kinds := []string{"addref", "addref", "addref", "release", "release", "release2", "setctx", "setctx", "finish", "finish", "finish", "finish", "invalidate", "invalidate", "probe", "cancelroot"}
		cons := []string{"wait", "resolve", "resolverel", "access"}
		switch prop {
		case "C09":
			kinds = append(kinds, "addref", "setctx", "invalidate", "finish")
		case "C10":
			kinds = []string{"addref", "release", "setctx", "finish", "finish", "finish", "finish", "invalidate", "invalidate", "consumer", "consumer", "consumer", "consumer", "cancel", "crelease", "crelease", "finishcb", "finishcb", "finishcb", "probe", "cancelroot"}
		}
		if prop != "C10" {
			kinds = append(kinds, "consumer", "consumer", "cancel", "crelease")
		}
		genOp := rapid.Custom(func(t *rapid.T) Op {
			op := Op{K: rapid.SampledFrom(kinds).Draw(t, "k")}
			switch op.K {
			case "addref":
				op.Cb = rapid.SampledFrom([]string{"rec", "rec", "rec", "nil"}).Draw(t, "cb")
			case "release", "release2", "invalidate", "cancel", "crelease":
				op.Pick = rapid.IntRange(0, 5).Draw(t, "pick")
			case "setctx":
				op.Ctx = rapid.SampledFrom([]string{"new", "new", "new", "same", "nil", "wrap", "plain"}).Draw(t, "ctx")
			case "finish":
				op.Out = rapid.SampledFrom([]string{"val", "val", "val", "valnorel", "valsame", "valzero", "valerr", "err", "errrel", "errcanceled"}).Draw(t, "out")
				op.Pick = rapid.IntRange(0, 3).Draw(t, "pick")
			case "finishcb":
				op.Out = rapid.SampledFrom([]string{"nil", "nil", "err", "ctxerr"}).Draw(t, "out")
				op.Pick = rapid.IntRange(0, 3).Draw(t, "pick")
			case "consumer":
				op.Kind = rapid.SampledFrom(cons).Draw(t, "kind")
				op.Rel = rapid.IntRange(0, 3).Draw(t, "rel") != 0
				op.Pre = rapid.IntRange(0, 15).Draw(t, "pre") == 0
			}
			return op
		})
		c.Ops = rapid.SliceOfN(genOp, 4, ev.Pick(20, 60)).Draw(t, "ops")
		if prop == "C10" && rapid.IntRange(0, 3).Draw(t, "prefix") != 0 {
			// construction: most consumer histories start on a container that resolves promptly
			c.InitCtx = true
			pre := []Op{{K: "addref", Cb: "rec"}, {K: "finish", Out: "val"}}
			switch rapid.IntRange(0, 3).Draw(t, "prefixcons") {
			case 0, 1:
				pre = append(pre, Op{K: "consumer", Kind: rapid.SampledFrom(cons).Draw(t, "pk"), Rel: true})
			case 2:
				// a consumer holds / works on the value while it is invalidated and an equal value is resolved again
				pre = append(pre, Op{K: "consumer", Kind: rapid.SampledFrom(cons).Draw(t, "pk"), Rel: true},
					Op{K: rapid.SampledFrom([]string{"invalidate", "setctx"}).Draw(t, "inv"), Ctx: "new"},
					Op{K: "finish", Out: rapid.SampledFrom([]string{"valsame", "val", "err"}).Draw(t, "again")},
					Op{K: "finishcb", Out: "nil"})
			}
			c.Ops = append(pre, c.Ops...)
		}
		if prop == "C08" && rapid.IntRange(0, 3).Draw(t, "prefix8") == 0 {
			// construction: a plain reference and a ResolveWithReleased holder share a value, the
			// value is invalidated and resolved afresh, and only then the holder's owner releases
			// what it was given (a release of a reference the container has already dropped)
			c.InitCtx = true
			inv := Op{K: rapid.SampledFrom([]string{"invalidate", "setctx"}).Draw(t, "inv8"), Ctx: "new"}
			pre := []Op{{K: "addref", Cb: "rec"}, {K: "finish", Out: "val"}, {K: "consumer", Kind: "resolverel", Rel: rapid.Bool().Draw(t, "rel8")},
				inv, {K: "finish", Out: "val"}, {K: "crelease"}, {K: "probe"}}
			c.Ops = append(pre, c.Ops...)
		}
		c.Sched = sched.GenSchedule(t, ev.Pick(150, 500))
		return c
	}
}

// deadlineLike is a context whose Err() reports DeadlineExceeded once it is done.
type deadlineLike struct{ context.Context }

func (d deadlineLike) Err() error {
	if d.Context.Err() != nil {
		return context.DeadlineExceeded
	}
	return nil
}

type callInst struct {
	id       int
	tok      *mCall
	ctx      context.Context
	released func()
	release  chan string
	finished bool
	returned bool
	val      *valueRec
	invals   int
}

type hRef struct {
	m        *mRef
	ref      *refcount.Ref[int]
	returned bool // AddRef returned
	relIss   bool // Release issued
	log      []cbEvent
}

type accInv struct {
	id                int
	cons              *consumer
	val               int
	ctx               context.Context
	release           chan string
	finished          bool
	returned          bool
	result            error
	invalidatedDuring bool
	cancelledBefore   bool // the caller's context was cancelled before the callback was told to return
}

type consumer struct {
	id              int
	kind            string
	label           string
	m               *mRef
	cancel          context.CancelFunc
	cancelled       bool
	withRel         bool
	returned        bool
	val             int
	err             error
	relFn           func()
	callerRel       bool // the caller released the returned reference
	relFired        int
	sections        int   // refcount mutex sections taken by the op goroutine
	lens            []int // len(expected) of its ref at each private-Broadcast section (Access)
	invs            []*accInv
	heldInvalidated bool
}

var parkPoints = []string{"refcount.lock", "refcount.resolve", "refcount.addref.ret", "broadcast.lock", "broadcast.unlocked"}

func run(t *testing.T, cs Case) *ev.Verdict {
	v := &ev.Verdict{}
	canon, _ := json.Marshal(struct {
		K, T, E, I bool
		Ops        []Op
	}{cs.Keep, cs.Target, cs.TargetErr, cs.InitCtx, cs.Ops})
	v.Canon = string(canon)
	c, berr := sched.Run(t, parkPoints, cs.Sched, func(c *sched.Ctl) { c.MaxSteps = 8000; body(c, cs, v) })
	v.Trace = c.Trace()
	if c.Prio {
		v.Class("priority-schedule")
	}
	if c.Mix {
		v.Class("uniform-decisions")
	}
	if c.StepLimit && len(v.Viol) == 0 {
		// who keeps taking sections without blocking?
		tail := v.Trace
		if len(tail) > 40 {
			tail = tail[len(tail)-40:]
		}
		cons := 0
		for _, s := range tail {
			if strings.HasPrefix(s, "c") {
				cons++
			}
		}
		if cons*2 > len(tail) {
			v.Add("C10", "refcount:consumer-spins", "a Wait/Resolve/Access consumer keeps looping without blocking or returning (grant budget exceeded); last grants %v", tail[len(tail)-12:])
		} else {
			v.Infra = "step limit exceeded"
		}
	}
	if berr != "" && len(v.Viol) == 0 {
		v.Add("C09", "refcount:leak", "bubble ended with blocked goroutines: %s", berr)
	}
	return v
}

func eqEvents(a, b []cbEvent) bool {
	if len(a) != len(b) {
		return false
	}
	for i := range a {
		if a[i] != b[i] {
			return false
		}
	}
	return true
}

func body(c *sched.Ctl, cs Case, v *ev.Verdict) {
	var hm, vm sync.Mutex
	fail := func(prop, sig, f string, a ...any) {
		vm.Lock()
		v.Add(prop, sig, f, a...)
		vm.Unlock()
	}
	m := &rcModel{keep: cs.Keep}
	cleanup := false
	var target *ccontainer.CContainer[int]
	var targetErr *ccontainer.CContainer[*error]
	if cs.Target {
		target = ccontainer.NewCContainer(0)
	}
	if cs.TargetErr {
		targetErr = ccontainer.NewCContainer[*error](nil)
	}
	var ctxs []context.Context
	var cancels []context.CancelFunc
	ctxs = append(ctxs, nil)
	cancels = append(cancels, nil)
	grp := map[int]int{} // context id -> id of the context whose cancellation it shares
	newCtx := func() int {
		ctx, cancel := context.WithCancel(context.Background())
		ctxs = append(ctxs, ctx)
		cancels = append(cancels, cancel)
		grp[len(ctxs)-1] = len(ctxs) - 1
		return len(ctxs) - 1
	}
	// a different context value that shares the cancellation (and the Done channel) of an earlier one
	type ctxKey struct{}
	wrapCtx := func(parent int) int {
		ctxs = append(ctxs, context.WithValue(ctxs[parent], ctxKey{}, len(ctxs)))
		cancels = append(cancels, cancels[parent])
		grp[len(ctxs)-1] = grp[parent]
		return len(ctxs) - 1
	}
	// the two contexts that are never cancelled (nil Done channel), distinct values
	plainIDs := [2]int{}
	plainCtx := func(cur int) int {
		for i, c := range []context.Context{context.Background(), context.TODO()} {
			if plainIDs[i] == 0 {
				ctxs = append(ctxs, c)
				cancels = append(cancels, nil)
				plainIDs[i] = len(ctxs) - 1
				grp[plainIDs[i]] = plainIDs[i]
			}
		}
		if cur == plainIDs[0] {
			return plainIDs[1]
		}
		return plainIDs[0]
	}
	var calls []*callInst
	var hrefs []*hRef
	var conss []*consumer
	consByLabel := map[string]*consumer{}
	var invs []*accInv
	nextVal := 0
	active := 0
	pendingMut := map[string]func(){}
	var fireQueue []*consumer // waitrel consumers whose released-goroutine is expected to take a section
	unexpected := 0
	setCtxDeviations := 0
	// non-triviality
	staleReturn, relRacesLastRelease, keptAcrossZero := false, false, false
	lateAddRef, lateAddRefNil := false, false
	restartsWhileReturning := 0
	twoRestarts := false
	invalBetweenLookAndReturn, invalWhileHeld := false, false
	repeatedValue, sentinelError, zeroValue := false, false, false
	rootCancelled := false
	type keptErr struct {
		p   *error
		was error
	}
	var keptErrs []keptErr // error pointers seen in the error container at earlier quiescent points
	rootDead := map[int]bool{}
	sharedDone := false // a SetContext replaced the context by a different value with the same Done channel
	invOps := map[string]*sched.Op{}

	// ---- resolver ----
	resolver := func(ctx context.Context, released func()) (int, func(), error) {
		label := c.LabelOfCaller()
		hm.Lock()
		ci := &callInst{id: len(calls), ctx: ctx, released: released, release: make(chan string, 1)}
		if strings.HasPrefix(label, "r") {
			var id int
			fmt.Sscanf(label, "r%d", &id)
			if id < len(m.calls) {
				ci.tok = m.calls[id]
				ci.tok.inst = ci
			}
		}
		calls = append(calls, ci)
		active++
		if !cleanup {
			if active > 1 {
				fail("C09", "refcount:resolver-overlap", "the resolver was entered (call %d) while another resolver call is still running", ci.id)
			}
			if ci.tok == nil {
				if m.liveRefs() == 0 {
					// a value made for nobody: its release can only come "shortly after the last
					// reference is dropped" if it is never made
					fail("C08", "refcount:resolve-without-references", "the resolver was called although the container has no reference")
				}
				fail("C09", "refcount:unexpected-resolve", "the resolver was called by a goroutine the reference machine did not start")
			}
		}
		hm.Unlock()
		out := <-ci.release
		hm.Lock()
		defer hm.Unlock()
		active--
		ci.returned = true
		vr := &valueRec{callID: ci.id}
		switch out {
		case "val", "valnorel":
			nextVal++
			vr.id = nextVal
			vr.hasRel = out == "val"
		case "valsame":
			// an equal value again (e.g. the same pointer): distinct resolution, same comparable value
			if nextVal == 0 {
				nextVal++
			}
			vr.id = nextVal
			vr.hasRel = true
			repeatedValue = true
		case "valzero":
			// the resolver succeeds with the zero value of T (and a release function)
			vr.id = 0
			vr.hasRel = true
			zeroValue = true
		case "valerr":
			// a partial result: a value together with an error (and a release function)
			nextVal++
			vr.id = nextVal
			vr.err = fmt.Errorf("resolve-error-%d", ci.id)
			vr.hasRel = true
		case "err", "errrel":
			vr.err = fmt.Errorf("resolve-error-%d", ci.id)
			vr.hasRel = out == "errrel"
		case "errcanceled":
			// the resolver fails with context.Canceled on its own account
			vr.err = context.Canceled
			sentinelError = true
		}
		ci.val = vr
		m.values = append(m.values, vr)
		if ci.tok != nil && ci.tok.cancelled {
			staleReturn = true
		}
		var rel func()
		if vr.hasRel {
			rel = func() {
				// runs inside a RefCount mutex section (or deferred at the end of one)
				vr.relCount++
				if cleanup {
					return
				}
				if vr.relCount > 1 {
					fail("C08", "refcount:released-twice", "the release function of value %d (call %d) ran %d times", vr.id, vr.callID, vr.relCount)
				}
				if !vr.expected {
					fail("C08", "refcount:released-while-held", "the release function of value %d (call %d) ran although the machine still considers the value held (refs=%d ctx=%d resolved=%v)", vr.id, vr.callID, m.liveRefs(), m.ctxID, m.resolved)
				}
				if target != nil && vr.id != 0 && vr.stored && target.GetValue() == vr.id {
					fail("C08", "refcount:released-but-exposed", "the release function of value %d ran while the target container still holds it", vr.id)
				}
				for _, h := range hrefs {
					if vr.stored && h.m.live && len(h.log) > 0 {
						if last := h.log[len(h.log)-1]; last.resolved && last.val == vr.id && last.err == vr.err && vr.err == nil {
							fail("C08", "refcount:released-but-not-told", "the release function of value %d ran although reference #%d was last told (resolved=true, %d)", vr.id, h.m.id, last.val)
						}
					}
				}
			}
		}
		return vr.id, rel, vr.err
	}

	var rc *refcount.RefCount[int]
	if cs.InitCtx {
		m.ctxID = newCtx()
	}
	rc = refcount.NewRefCount(ctxs[m.ctxID], cs.Keep, target, targetErr, resolver)

	c.AfterWait = func() {
		if cleanup {
			return
		}
		hm.Lock()
		defer hm.Unlock()
		for _, tk := range c.Pending() {
			if tk.Label != "" || tk.Point != "refcount.resolve" {
				continue
			}
			if len(m.unbound) > 0 {
				tok := m.unbound[0]
				m.unbound = m.unbound[1:]
				c.LabelGoid(tk.Goid(), fmt.Sprintf("r%03d", tok.id))
			} else {
				unexpected++
				c.LabelGoid(tk.Goid(), fmt.Sprintf("x%03d", unexpected))
			}
		}
	}

	// after any model transition: bookkeeping that depends on newly delivered events
	afterTransition := func() { // hm held
		for _, cn := range conss {
			if cn.m == nil {
				continue
			}
			switch cn.kind {
			case "resolverel":
				// fire expected once an event follows the first resolved delivery
				first := -1
				for i, e := range cn.m.expected {
					if e.resolved || e.err != nil {
						first = i
						break
					}
				}
				if first >= 0 && len(cn.m.expected) > first+1 && !cn.heldInvalidated {
					cn.heldInvalidated = true
					fireQueue = append(fireQueue, cn)
					if cn.returned && !cn.callerRel {
						invalWhileHeld = true
					}
				}
			case "wait", "resolve":
				if cn.returned && cn.err == nil && !cn.callerRel && len(cn.m.expected) > 0 && !cn.m.state().resolved && !cn.heldInvalidated {
					cn.heldInvalidated = true
					invalWhileHeld = true
				}
			}
		}
		for _, iv := range invs {
			if !iv.returned && !iv.invalidatedDuring {
				st := iv.cons.m.state()
				if !(st.resolved && st.val == iv.val && st.err == nil) {
					iv.invalidatedDuring = true
					invalBetweenLookAndReturn = true
				}
			}
		}
	}

	c.OnGrant(func(tk *sched.Ticket) {
		hm.Lock()
		defer hm.Unlock()
		if tk.Point == "broadcast.lock" {
			if cn, ok := consByLabel[tk.Label]; ok && cn.kind == "access" && cn.m != nil {
				cn.lens = append(cn.lens, len(cn.m.expected))
			}
			return
		}
		if tk.Point != "refcount.lock" {
			return
		}
		defer afterTransition()
		if f, ok := pendingMut[tk.Label]; ok {
			f()
			delete(pendingMut, tk.Label)
			return
		}
		switch {
		case strings.HasPrefix(tk.Label, "r"):
			var id int
			fmt.Sscanf(tk.Label, "r%d", &id)
			call := m.calls[id]
			if call.inst != nil && call.inst.val != nil {
				m.Apply(call, call.inst.val)
			}
		case strings.HasPrefix(tk.Label, "c"):
			cn := consByLabel[tk.Label]
			if cn == nil {
				return
			}
			cn.sections++
			if cn.sections == 1 {
				before := m.resolved
				m.AddRef(cn.m)
				if before {
					lateAddRef = true
				}
			} else {
				m.RemoveRef(cn.m)
			}
		case tk.Label == "":
			// the released-goroutine of a ResolveWithReleased consumer drops its reference
			for i, cn := range fireQueue {
				if cn.m.live {
					fireQueue = append(fireQueue[:i], fireQueue[i+1:]...)
					if m.liveRefs() == 1 {
						relRacesLastRelease = true
					}
					m.RemoveRef(cn.m)
					return
				}
			}
			fail("C10", "refcount:unexpected-section", "an unlabelled goroutine took the RefCount mutex although the machine expects no released-notification goroutine")
		}
	})

	quiescent := func(where string) {
		hm.Lock()
		defer hm.Unlock()
		// a released() call that returned without ever taking the mutex section did nothing at all:
		// apply its transition now so that the missing effects are reported below
		for label, op := range invOps {
			if f, ok := pendingMut[label]; ok && op.Done() {
				f()
				delete(pendingMut, label)
				afterTransition()
			}
		}
		// C08: releases
		for _, vr := range m.values {
			if vr.hasRel && vr.expected && vr.relCount != 1 {
				fail("C08", "refcount:not-released", "%s: value %d (call %d, err=%v) must be gone (last reference dropped / context changed / invalidated / stale result) but its release function ran %d times", where, vr.id, vr.callID, vr.err, vr.relCount)
				return
			}
			if vr.hasRel && !vr.expected && vr.relCount != 0 {
				fail("C08", "refcount:released-while-held", "%s: value %d was released although the machine still considers it held", where, vr.id)
				return
			}
		}
		// C09: container contents and callback logs
		if target != nil {
			if got := target.GetValue(); got != m.target {
				fail("C09", "refcount:target", "%s: target container holds %d, the machine says %d (resolved=%v refs=%d ctx=%d)", where, got, m.target, m.resolved, m.liveRefs(), m.ctxID)
				return
			}
		}
		if targetErr != nil {
			got := targetErr.GetValue()
			var ge error
			if got != nil {
				ge = *got
			}
			if ge != m.targetErr {
				fail("C09", "refcount:target-err", "%s: error container holds %v, the machine says %v", where, ge, m.targetErr)
				return
			}
			// what the container handed out is the consumer's: the error behind an earlier pointer
			// stays what it was when it was published
			for _, k := range keptErrs {
				if *k.p != k.was {
					fail("C09", "refcount:target-err-changed", "%s: the error pointer published earlier read %v then and reads %v now", where, k.was, *k.p)
					return
				}
			}
			if got != nil && (len(keptErrs) == 0 || keptErrs[len(keptErrs)-1].p != got) && len(keptErrs) < 16 {
				keptErrs = append(keptErrs, keptErr{got, *got})
			}
		}
		for _, h := range hrefs {
			if h.m.kind == "rec" && h.returned && !eqEvents(h.log, h.m.expected) {
				fail("C09", "refcount:callback-sequence", "%s: reference #%d received callbacks %v, the machine implies %v", where, h.m.id, fmtEvents(h.log), fmtEvents(h.m.expected))
				return
			}
		}
		// a wanted resolution must be under way
		// (a root context cancelled from outside is a dead context: whether resolution is attempted
		// under it is not decided by the property)
		if m.ctxID != 0 && !rootDead[grp[m.ctxID]] && m.liveRefs() > 0 && !m.resolved {
			inflight := false
			for _, ci := range calls {
				if !ci.returned {
					inflight = true
				}
			}
			if !inflight && len(c.Pending()) == 0 {
				fail("C09", "refcount:not-resolving", "%s: the container has a context and %d reference(s), nothing is resolved, yet no resolver call is in progress", where, m.liveRefs())
				return
			}
		}
		// every resolver call the machine cancelled must see a cancelled context
		for _, ci := range calls {
			if !ci.returned && ci.tok != nil && ci.tok.cancelled && ci.ctx.Err() == nil {
				fail("C09", "refcount:resolver-not-cancelled", "%s: resolver call %d was superseded but its context is still live", where, ci.id)
				return
			}
		}
		// C10: consumers
		for _, cn := range conss {
			if cn.m == nil {
				continue
			}
			st := cn.m.state()
			switch cn.kind {
			case "wait", "resolve", "resolverel":
				if !cn.returned {
					switch {
					case cn.cancelled:
						fail("C10", "refcount:consumer-cancelled-not-returned", "%s: %s #%d whose context is cancelled is still blocked", where, cn.kind, cn.id)
						return
					case cn.sections > 0 && cn.kind == "resolverel" && everResolved(cn.m.expected):
						fail("C10", "refcount:consumer-blocked", "%s: ResolveWithReleased #%d is blocked at full quiescence although its reference has been told a result (events %v)", where, cn.id, fmtEvents(cn.m.expected))
						return
					case cn.sections > 0 && (st.resolved || st.err != nil) && cn.kind != "resolverel":
						fail("C10", "refcount:consumer-blocked", "%s: %s #%d is blocked at full quiescence although its reference was told (resolved=%v,%d,%v)", where, cn.kind, cn.id, st.resolved, st.val, st.err)
						return
					}
				}
				if cn.kind == "resolverel" && cn.withRel {
					want := 0
					if cn.heldInvalidated {
						want = 1
					}
					if cn.relFired != want && len(c.Pending()) == 0 {
						fail("C10", "refcount:released-callback-count", "%s: released callback of ResolveWithReleased #%d fired %d times, the machine implies %d (events %v)", where, cn.id, cn.relFired, want, fmtEvents(cn.m.expected))
						return
					}
				}
			case "access":
				activeInv := false
				for _, iv := range cn.invs {
					if iv.returned {
						continue
					}
					activeInv = true
					if iv.invalidatedDuring && iv.ctx.Err() == nil {
						fail("C10", "refcount:access-ctx-not-cancelled", "%s: Access #%d: the value %d given to the running callback was invalidated but the callback's context is still live", where, cn.id, iv.val)
						return
					}
				}
				if !cn.returned && !activeInv && len(c.Pending()) == 0 {
					switch {
					case cn.cancelled:
						fail("C10", "refcount:consumer-cancelled-not-returned", "%s: Access #%d whose context is cancelled is still blocked", where, cn.id)
						return
					case cn.sections > 0 && st.resolved && st.err == nil:
						fail("C10", "refcount:access-not-invoked", "%s: Access #%d is idle at full quiescence although its reference holds the value %d (callback not invoked / not re-invoked)", where, cn.id, st.val)
						return
					case cn.sections > 0 && st.err != nil:
						fail("C10", "refcount:access-error-not-returned", "%s: Access #%d is blocked although resolution failed with %v", where, cn.id, st.err)
						return
					}
				}
			}
		}
	}

	// ---- issue ----
	issue := func(i int, op Op) bool {
		label := fmt.Sprintf("o%02d", i)
		switch op.K {
		case "addref":
			hm.Lock()
			h := &hRef{m: &mRef{id: len(hrefs), kind: op.Cb}}
			hrefs = append(hrefs, h)
			pendingMut[label] = func() {
				if m.resolved {
					if op.Cb == "nil" {
						lateAddRefNil = true
					} else {
						lateAddRef = true
					}
				}
				if m.liveRefs() == 0 && m.resolved {
					keptAcrossZero = true
				}
				m.AddRef(h.m)
			}
			hm.Unlock()
			c.Go(label, func() {
				var cb func(bool, int, error)
				if op.Cb == "rec" {
					cb = func(resolved bool, val int, err error) {
						// runs inside a RefCount mutex section
						h.log = append(h.log, cbEvent{resolved, val, err})
					}
				}
				ref := rc.AddRef(cb)
				hm.Lock()
				h.ref, h.returned = ref, true
				hm.Unlock()
			})
		case "release", "release2":
			hm.Lock()
			var el []*hRef
			for _, h := range hrefs {
				if h.returned && h.relIss == (op.K == "release2") {
					el = append(el, h)
				}
			}
			if len(el) == 0 {
				hm.Unlock()
				return false
			}
			h := el[op.Pick%len(el)]
			h.relIss = true
			if h.m.live {
				// whichever Release call wins the reference's once-flag takes the section
				pendingMut[label] = func() { m.RemoveRef(h.m) }
			}
			hm.Unlock()
			c.Go(label, func() { h.ref.Release() })
		case "setctx":
			hm.Lock()
			cid := m.ctxID
			switch op.Ctx {
			case "new":
				cid = newCtx()
			case "nil":
				cid = 0
			case "wrap":
				if cid != 0 && !rootDead[grp[cid]] {
					cid = wrapCtx(cid)
					sharedDone = true
				} else {
					cid = newCtx()
				}
			case "plain":
				cid = plainCtx(cid)
				sharedDone = true
			}
			var want bool
			pendingMut[label] = func() {
				for _, ci := range calls {
					if !ci.returned && ci.ctx.Err() != nil {
						restartsWhileReturning++
						if restartsWhileReturning >= 2 {
							twoRestarts = true
						}
					}
				}
				want = m.SetContext(cid)
			}
			hm.Unlock()
			c.Go(label, func() {
				got := rc.SetContext(ctxs[cid])
				hm.Lock()
				defer hm.Unlock()
				if got != want {
					setCtxDeviations++ // documented, but not part of C08-C10: counted only
				}
			})
		case "cancelroot":
			// the owner cancels the container's current root context from outside (no SetContext):
			// the RefCount keeps its state; only contexts derived from it are cancelled
			hm.Lock()
			cid := m.ctxID
			hm.Unlock()
			if cid == 0 || cancels[cid] == nil {
				return false
			}
			rootCancelled = true
			hm.Lock()
			rootDead[grp[cid]] = true
			hm.Unlock()
			cancels[cid]()
		case "finish":
			hm.Lock()
			var el []*callInst
			for _, ci := range calls {
				if !ci.finished {
					el = append(el, ci)
				}
			}
			if len(el) == 0 {
				hm.Unlock()
				return false
			}
			ci := el[op.Pick%len(el)]
			ci.finished = true
			restartsWhileReturning = 0
			hm.Unlock()
			ci.release <- op.Out
		case "invalidate":
			hm.Lock()
			var el []*callInst
			for _, ci := range calls {
				if ci.tok != nil && ci.invals < 2 {
					el = append(el, ci)
				}
			}
			if len(el) == 0 {
				hm.Unlock()
				return false
			}
			ci := el[op.Pick%len(el)]
			ci.invals++
			vl := fmt.Sprintf("v%02d", i)
			pendingMut[vl] = func() {
				for _, other := range calls {
					if !other.returned && other.ctx.Err() != nil {
						restartsWhileReturning++
						if restartsWhileReturning >= 2 {
							twoRestarts = true
						}
					}
				}
				m.Released(ci.tok)
			}
			hm.Unlock()
			invOps[vl] = c.Go(vl, func() { ci.released() })
		case "consumer":
			hm.Lock()
			cn := &consumer{id: len(conss), kind: op.Kind, label: fmt.Sprintf("c%02d", i), withRel: op.Rel}
			cn.m = &mRef{id: 100000 + cn.id, kind: op.Kind, cons: cn}
			conss = append(conss, cn)
			consByLabel[cn.label] = cn
			hm.Unlock()
			ctx, cancel := context.WithCancel(context.Background())
			if cn.id%3 == 1 {
				// a context that ends like an expired deadline (Err() is DeadlineExceeded): the
				// consumers document context.Canceled for a caller whose context is done
				ctx = deadlineLike{ctx}
			}
			cn.cancel = cancel
			if op.Pre {
				cancel()
				cn.cancelled = true
			}
			c.Go(cn.label, func() {
				var val int
				var err error
				var relFn func()
				switch cn.kind {
				case "wait":
					var ref *refcount.Ref[int]
					val, ref, err = rc.Wait(ctx)
					if ref != nil {
						relFn = ref.Release
					}
				case "resolve":
					val, relFn, err = rc.Resolve(ctx)
				case "resolverel":
					var rcb func()
					if cn.withRel {
						rcb = func() {
							hm.Lock()
							cn.relFired++
							if cn.relFired > 1 && !cleanup {
								fail("C10", "refcount:released-callback-twice", "released callback of ResolveWithReleased #%d fired %d times", cn.id, cn.relFired)
							}
							if !cn.heldInvalidated && !cleanup {
								fail("C10", "refcount:released-callback-spurious", "released callback of ResolveWithReleased #%d fired although its value was never invalidated", cn.id)
							}
							hm.Unlock()
						}
					}
					val, relFn, err = rc.ResolveWithReleased(ctx, rcb)
				case "access":
					err = rc.Access(ctx, func(cbCtx context.Context, v int) error {
						hm.Lock()
						iv := &accInv{id: len(invs), cons: cn, val: v, ctx: cbCtx, release: make(chan string, 1)}
						invs = append(invs, iv)
						cn.invs = append(cn.invs, iv)
						if !cleanup {
							delivered := false
							for _, e := range cn.m.expected {
								if e.resolved && e.val == v && e.err == nil {
									delivered = true
								}
							}
							if !delivered {
								fail("C10", "refcount:access-unknown-value", "Access #%d invoked its callback with %d which was never delivered to its reference (events %v)", cn.id, v, fmtEvents(cn.m.expected))
							}
							st := cn.m.state()
							if !(st.resolved && st.val == v && st.err == nil) {
								iv.invalidatedDuring = true
								invalBetweenLookAndReturn = true
							}
						}
						hm.Unlock()
						out := <-iv.release
						hm.Lock()
						defer hm.Unlock()
						iv.returned = true
						if out == "err" {
							iv.result = fmt.Errorf("access-cb-error-%d", iv.id)
						}
						if out == "ctxerr" {
							// a well-behaved callback: it reports the end of the context it was given
							iv.result = cbCtx.Err()
						}
						return iv.result
					})
				}
				hm.Lock()
				defer hm.Unlock()
				cn.returned, cn.val, cn.err, cn.relFn = true, val, err, relFn
				if cleanup {
					return
				}
				switch cn.kind {
				case "wait", "resolve", "resolverel":
					switch {
					case err == nil:
						if relFn == nil {
							fail("C10", "refcount:nil-release", "%s #%d returned no error and no way to release", cn.kind, cn.id)
							return
						}
						ok := false
						for _, e := range cn.m.expected {
							if e.resolved && e.val == val && e.err == nil {
								ok = true
							}
						}
						if !ok {
							fail("C10", "refcount:consumer-unknown-value", "%s #%d returned %d which was never delivered to its reference (events %v)", cn.kind, cn.id, val, fmtEvents(cn.m.expected))
							return
						}
						// not released while held (unless invalidated)
						st := cn.m.state()
						if st.resolved && st.val == val && m.cur != nil && m.cur.id == val && m.cur.relCount > 0 {
							fail("C10", "refcount:consumer-value-released", "%s #%d returned %d which has already been released although it was not invalidated", cn.kind, cn.id, val)
						}
					case err == context.Canceled && cn.cancelled:
					default:
						ok := false
						for _, e := range cn.m.expected {
							if e.err == err {
								ok = true
							}
						}
						if !ok {
							fail("C10", "refcount:consumer-unknown-error", "%s #%d returned error %v which was never delivered to its reference (cancelled=%v, events %v)", cn.kind, cn.id, err, cn.cancelled, fmtEvents(cn.m.expected))
						}
					}
				case "access":
					var last *accInv
					for _, iv := range cn.invs {
						if iv.returned {
							last = iv
						}
					}
					if last != nil && last.cancelledBefore && err != context.Canceled {
						fail("C10", "refcount:access-cancel-swallowed", "Access #%d: the caller's context was cancelled while the callback was running, yet Access returned %v instead of context.Canceled", cn.id, err)
					}
					switch {
					case err == context.Canceled && cn.cancelled:
					case last != nil && err == last.result && (err == nil || strings.HasPrefix(err.Error(), "access-cb-error")):
						// returned the callback's own result: nothing may have been delivered between look and check
						n := len(cn.lens)
						if n >= 2 && cn.lens[n-1] != cn.lens[n-2] {
							fail("C10", "refcount:access-stale-result", "Access #%d returned the result of a callback run on value %d although its reference received new events between the look and the callback's return (events %v)", cn.id, last.val, fmtEvents(cn.m.expected))
						}
					default:
						ok := false
						for _, e := range cn.m.expected {
							if e.err != nil && e.err == err {
								ok = true
							}
						}
						if !ok {
							fail("C10", "refcount:access-unknown-result", "Access #%d returned %v which is neither its callback's result, nor a resolver error delivered to it, nor a cancellation (cancelled=%v)", cn.id, err, cn.cancelled)
						}
					}
				}
			})
		case "cancel":
			hm.Lock()
			var el []*consumer
			for _, cn := range conss {
				if !cn.returned && !cn.cancelled {
					el = append(el, cn)
				}
			}
			if len(el) == 0 {
				hm.Unlock()
				return false
			}
			cn := el[op.Pick%len(el)]
			cn.cancelled = true
			hm.Unlock()
			cn.cancel()
		case "crelease":
			hm.Lock()
			var el []*consumer
			for _, cn := range conss {
				if cn.returned && cn.relFn != nil && !cn.callerRel {
					el = append(el, cn)
				}
			}
			if len(el) == 0 {
				hm.Unlock()
				return false
			}
			cn := el[op.Pick%len(el)]
			cn.callerRel = true
			pendingMut[label] = func() {
				if m.liveRefs() == 1 && cn.m.live {
					for _, q := range fireQueue {
						if q == cn {
							relRacesLastRelease = true
						}
					}
				}
				tgt := cn.m
				if !tgt.live {
					// this call took a section, so the consumer's reference was still held until
					// now: the released-notification goroutine that the machine attributed to it
					// (those goroutines cannot be told apart) was another invalidated consumer's
					for k, q := range fireQueue {
						if q != cn && q.m.live {
							tgt = q.m
							fireQueue = append(fireQueue[:k], fireQueue[k+1:]...)
							break
						}
					}
				}
				m.RemoveRef(tgt)
			}
			hm.Unlock()
			c.Go(label, func() { cn.relFn() })
		case "finishcb":
			hm.Lock()
			var el []*accInv
			for _, iv := range invs {
				if !iv.finished {
					el = append(el, iv)
				}
			}
			if len(el) == 0 {
				hm.Unlock()
				return false
			}
			iv := el[op.Pick%len(el)]
			iv.cancelledBefore = iv.cons.cancelled
			iv.finished = true
			hm.Unlock()
			iv.release <- op.Out
		case "probe":
			if c.Settle(true) {
				quiescent(fmt.Sprintf("probe op %d", i))
			}
		}
		return true
	}

	for i, op := range cs.Ops {
		if len(v.Viol) > 0 || c.StepLimit || c.Panics() != "" {
			break
		}
		v.OpsTotal++
		if issue(i, op) {
			v.OpsEffective++
		}
		if c.Settle(false) && c.Panics() == "" {
			quiescent(fmt.Sprintf("after op %d (%s)", i, op.K))
		}
	}
	if len(v.Viol) == 0 && !c.StepLimit && c.Panics() == "" && c.Settle(true) {
		quiescent("end")
	}
	panicked := c.Panics()
	if panicked != "" {
		fail("C09", "refcount:panic", "operation panicked: %s", firstLines(panicked, 6))
	}
	hadViol := len(v.Viol) > 0
	hm.Lock()
	cleanup = true
	hm.Unlock()
	if c.StepLimit {
		// a spinning consumer would spin for real in pass-through mode: cancel it first
		for _, cn := range conss {
			cn.cancelled = true
			cn.cancel()
		}
	}
	if panicked != "" {
		// the RefCount mutex may be left locked: do not touch the container again and
		// leave every goroutine parked (the bubble then ends with a recoverable panic)
		c.Abandon = true
		return
	}
	c.PassThrough()
	// end of case: drop every reference, clear the context, finish everything
	for round := 0; round < 200; round++ {
		c.Wait()
		hm.Lock()
		var todo []func()
		for _, h := range hrefs {
			if h.returned && !h.relIss {
				h.relIss = true
				todo = append(todo, h.ref.Release)
			}
		}
		for _, cn := range conss {
			if !cn.returned && !cn.cancelled {
				cn.cancelled = true
				todo = append(todo, func() { cn.cancel() })
			}
			if cn.returned && cn.relFn != nil && !cn.callerRel {
				cn.callerRel = true
				todo = append(todo, cn.relFn)
			}
		}
		for _, iv := range invs {
			if !iv.finished {
				iv.finished = true
				todo = append(todo, func() { iv.release <- "nil" })
			}
		}
		for _, ci := range calls {
			if !ci.finished {
				ci.finished = true
				todo = append(todo, func() { ci.release <- "val" })
			}
		}
		hm.Unlock()
		if len(todo) == 0 {
			break
		}
		for _, f := range todo {
			f()
		}
	}
	c.Wait()
	if !hadViol && !cs.Keep && len(c.Blocked()) == 0 {
		// Every reference the harness obtained has been released, every consumer call is over
		// (and what it returned was released), no resolver call is in flight, and values are
		// not kept unreferenced: each value must have been released by now. A reference that
		// some call registered and forgot would pin the current value here. (Harness-side
		// truth only: no use of the reference machine.)
		hm.Lock()
		for _, vr := range m.values {
			if vr.hasRel && vr.relCount == 0 {
				fail("C08", "refcount:value-pinned-without-references", "every reference was released and every call is over (keep-unreferenced off), but the release function of value %d (call %d) has not run: something still counts as a reference", vr.id, vr.callID)
				hadViol = true
				break
			}
		}
		hm.Unlock()
	}
	rc.ClearContext()
	c.Wait()
	if !hadViol {
		if bl := c.Blocked(); len(bl) > 0 {
			fail("C09", "refcount:stuck-after-cleanup", "ops %v never returned after every reference was released, every context cancelled and the container's context cleared", bl)
		}
		hm.Lock()
		for _, vr := range m.values {
			if vr.hasRel && vr.relCount != 1 {
				fail("C08", "refcount:release-count-at-end", "after every reference was released and the context cleared, the release function of value %d (call %d) has run %d times, want exactly once", vr.id, vr.callID, vr.relCount)
				break
			}
		}
		hm.Unlock()
	}
	for _, cancel := range cancels {
		if cancel != nil {
			cancel()
		}
	}
	if staleReturn || relRacesLastRelease || keptAcrossZero {
		v.SetNT("C08")
	}
	if staleReturn {
		v.Class("resolver-returned-after-being-superseded")
	}
	if relRacesLastRelease {
		v.Class("released-goroutine-drops-last-reference")
	}
	if keptAcrossZero {
		v.Class("value-kept-across-zero-references")
	}
	if lateAddRef || lateAddRefNil || twoRestarts {
		v.SetNT("C09")
	}
	if lateAddRef {
		v.Class("late-addref-on-resolved-container")
	}
	if lateAddRefNil {
		v.Class("late-addref-nil-callback")
	}
	if twoRestarts {
		v.Class("two-restarts-while-a-resolver-call-is-returning")
	}
	if sharedDone {
		v.Class("context-replaced-by-one-with-the-same-done-channel")
	}
	if invalBetweenLookAndReturn || invalWhileHeld {
		v.SetNT("C10")
	}
	if invalBetweenLookAndReturn {
		v.Class("invalidation-between-access-look-and-callback-return")
	}
	if invalWhileHeld {
		v.Class("invalidation-while-consumer-holds-reference")
	}
	if rootCancelled {
		v.Class("root-context-cancelled-from-outside")
	}
	if zeroValue {
		v.Class("resolver-returned-the-zero-value")
	}
	if repeatedValue {
		v.Class("resolver-returned-an-equal-value-again")
	}
	if sentinelError {
		v.Class("resolver-failed-with-context-canceled")
	}
	if setCtxDeviations > 0 {
		v.Class("setcontext-return-value-differs-from-machine")
	}
}

func everResolved(evs []cbEvent) bool {
	for _, e := range evs {
		if e.resolved || e.err != nil {
			return true
		}
	}
	return false
}

func firstLines(s string, n int) string {
	parts := strings.SplitN(s, "\n", n+1)
	if len(parts) > n {
		parts = parts[:n]
	}
	return strings.Join(parts, " | ")
}

func fmtEvents(ev []cbEvent) string {
	var sb strings.Builder
	sb.WriteString("[")
	for i, e := range ev {
		if i > 0 {
			sb.WriteString(" ")
		}
		fmt.Fprintf(&sb, "(%v,%d,%v)", e.resolved, e.val, e.err)
	}
	sb.WriteString("]")
	return sb.String()
}

func TestC08(t *testing.T) {
	ev.Drive(t, ev.Runner[Case]{
		Prop: "C08",
		Rule: "RefCount machine: config {keepUnref, target/targetErr present, initial context}; ops AddRef(recording|nil cb), Release, second Release, SetContext(new|same|nil), FinishResolve(pick call: value+release | value | error | error+release), Invalidate(pick call's released(), up to twice), consumers, Probe; resolver calls block until finished; mutex sections are interleaved by the generated schedule; non-trivial iff a resolver returned after being superseded, or a released-notification goroutine dropped the last reference, or keepUnref kept a value across a zero-reference period; distinct by hash(case, realised grant trace)",
		Gen:  genCase("C08"),
		Run:  run,
	})
}

func TestC09(t *testing.T) {
	ev.Drive(t, ev.Runner[Case]{
		Prop: "C09",
		Rule: "same machine biased to AddRef/SetContext/Invalidate; non-trivial iff a reference (with or without callback) was added to an already resolved container, or >= 2 restarts were granted while a superseded resolver call was still returning; distinct by hash(case, realised grant trace)",
		Gen:  genCase("C09"),
		Run:  run,
	})
}

func TestC10(t *testing.T) {
	ev.Drive(t, ev.Runner[Case]{
		Prop: "C10",
		Rule: "same machine biased to consumers: Wait / Resolve / ResolveWithReleased(released cb) / Access(scripted callback that blocks until FinishAccessCb) with own contexts, Cancel, caller-side release of the returned reference; non-trivial iff an invalidation landed between Access's look and the callback's return, or while a Wait-style consumer held its reference; distinct by hash(case, realised grant trace)",
		Gen:  genCase("C10"),
		Run:  run,
	})
}
