// Package freex holds free-running (real parallelism, engine E3) semantic checks
// that complement the controlled checks where the interesting window lies
// between two un-hooked atomic operations: csync exclusion (C01), promise
// single winner (C11), Once/Memo single call (C16), ccontainer atomic swap (C15),
// conc limit (C18).
package freex

import (
	"context"
	"encoding/json"
	"fmt"
	"runtime"
	"sync"
	"sync/atomic"
	"testing"
	"time"

	"github.com/aperturerobotics/util/broadcast"
	"github.com/aperturerobotics/util/ccall"
	"github.com/aperturerobotics/util/ccontainer"
	"github.com/aperturerobotics/util/conc"
	"github.com/aperturerobotics/util/csync"
	"github.com/aperturerobotics/util/keyed"
	"github.com/aperturerobotics/util/memo"
	"github.com/aperturerobotics/util/promise"
	"github.com/aperturerobotics/util/refcount"
	"github.com/aperturerobotics/util/routine"
	"pgregory.net/rapid"
	"verif/harness/ev"
	"verif/harness/sched"
)

// Case is a small parallel program: G goroutines, each running its op list.
type Case struct {
	RW   bool    `json:"rw,omitempty"`
	Objs int     `json:"objs"`
	G    [][]int `json:"g"` // op codes
}

func genCase(maxOps int) func(t *rapid.T) Case {
	return func(t *rapid.T) Case {
		c := Case{RW: rapid.Bool().Draw(t, "rw"), Objs: rapid.IntRange(1, 8).Draw(t, "objs")}
		g := rapid.IntRange(2, ev.Pick(6, 10)).Draw(t, "g")
		for i := 0; i < g; i++ {
			c.G = append(c.G, rapid.SliceOfN(rapid.IntRange(0, 63), 1, maxOps).Draw(t, "ops"))
		}
		return c
	}
}

// waitUntil gives the other goroutines the processor until cond holds. It never gives
// up: no wall-clock limit decides anything here; a condition that never comes true is
// a stalled case, which the watchdog reports and a fresh process has to reproduce.
func waitUntil(cond func() bool) {
	for i := 0; !cond(); i++ {
		if i < 20000 {
			runtime.Gosched()
		} else {
			time.Sleep(200 * time.Microsecond)
		}
	}
}

// parallel runs one function per goroutine behind a spin barrier.
func parallel(n int, f func(g int)) {
	var wg sync.WaitGroup
	var ready atomic.Int32
	var start atomic.Bool
	for g := 0; g < n; g++ {
		wg.Add(1)
		go func() {
			defer wg.Done()
			ready.Add(1)
			for !start.Load() {
			}
			f(g)
		}()
	}
	for int(ready.Load()) < n {
		runtime.Gosched()
	}
	start.Store(true)
	wg.Wait()
}

func drive(t *testing.T, prop, rule string, maxOps int, body func(cs Case, v *ev.Verdict)) {
	ev.Drive(t, ev.Runner[Case]{
		Prop: prop, Rule: rule, Gen: genCase(maxOps), ReplayRuns: 300,
		Run: func(t *testing.T, cs Case) *ev.Verdict {
			v := &ev.Verdict{}
			cj, _ := json.Marshal(cs)
			v.Canon = string(cj)
			sched.SetFreeRunning(true)
			defer sched.SetFreeRunning(false)
			sched.Guard(func() { body(cs, v) })
			if len(cs.G) >= 2 {
				v.SetNT(prop)
			}
			return v
		},
	})
}

// blocker hands out contexts that are cancelled once every goroutine of the
// program is finished or inside a possibly blocking call, so that a liveness
// defect (another property's business) cannot hang a safety check.
type blocker struct {
	n        int
	finished atomic.Int32
	blocked  atomic.Int32
	mu       sync.Mutex
	cancels  map[int]context.CancelFunc
	next     int
	done     chan struct{}
}

func newBlocker(n int) *blocker {
	b := &blocker{n: n, cancels: map[int]context.CancelFunc{}, done: make(chan struct{})}
	go func() {
		for {
			select {
			case <-b.done:
				return
			default:
			}
			if int(b.finished.Load()+b.blocked.Load()) >= b.n && b.blocked.Load() > 0 {
				b.mu.Lock()
				for _, c := range b.cancels {
					c()
				}
				b.mu.Unlock()
			}
			runtime.Gosched()
		}
	}()
	return b
}

func (b *blocker) block(f func(ctx context.Context)) {
	ctx, cancel := context.WithCancel(context.Background())
	b.mu.Lock()
	id := b.next
	b.next++
	b.cancels[id] = cancel
	b.mu.Unlock()
	b.blocked.Add(1)
	f(ctx)
	b.blocked.Add(-1)
	b.mu.Lock()
	delete(b.cancels, id)
	b.mu.Unlock()
	cancel()
}

type failer struct {
	mu sync.Mutex
	v  *ev.Verdict
}

func (f *failer) add(prop, sig, format string, a ...any) {
	f.mu.Lock()
	if len(f.v.Viol) < 3 {
		f.v.Add(prop, sig, format, a...)
	}
	f.mu.Unlock()
}

// ---- C01: mutual exclusion under real parallelism ----

func TestC01Free(t *testing.T) {
	drive(t, "C01", "2..10 goroutines x 1..30 ops {Lock(read|write)+release, TryLock+release, double release, Lock with a context cancelled concurrently, Lock/Unlock through one Locker / RLocker value shared by all goroutines} on one Mutex/RWMutex with real parallelism and random yields at the hook points; occupancy counters are updated strictly inside the held interval; non-trivial iff >= 2 goroutines; distinct by program", 30,
		func(cs Case, v *ev.Verdict) {
			f := &failer{v: v}
			var mu csync.Mutex
			var rw csync.RWMutex
			var W, R atomic.Int32
			enter := func(write bool) {
				if write {
					if w := W.Add(1); w > 1 || R.Load() > 0 {
						f.add("C01", "csync:exclusion", "write holder entered with %d write holders and %d read holders", w, R.Load())
					}
				} else {
					R.Add(1)
					if w := W.Load(); w > 0 {
						f.add("C01", "csync:exclusion", "read holder entered while %d write holders hold the lock", w)
					}
				}
			}
			leave := func(write bool) {
				if write {
					W.Add(-1)
				} else {
					R.Add(-1)
				}
			}
			lock := func(ctx context.Context, write bool) (func(), error) {
				if cs.RW {
					return rw.Lock(ctx, write)
				}
				return mu.Lock(ctx)
			}
			try := func(write bool) (func(), bool) {
				if cs.RW {
					return rw.TryLock(write)
				}
				return mu.TryLock()
			}
			// probe: called by a goroutine that holds the lock (in write mode or not); a conflicting
			// TryLock issued by the holder itself must fail
			probe := func(write bool, how string) {
				if rel, ok := try(true); ok {
					f.add("C01", "csync:exclusion", "a write TryLock succeeded while its caller holds the lock (write=%v, acquired through %s)", write, how)
					rel()
				}
				if write && cs.RW {
					if rel, ok := try(false); ok {
						f.add("C01", "csync:exclusion", "a read TryLock succeeded while its caller holds the write lock (acquired through %s)", how)
						rel()
					}
				}
			}
			sharedW, sharedR := mu.Locker(), mu.Locker()
			if cs.RW {
				sharedW, sharedR = rw.Locker(), rw.RLocker()
			}
			bl := newBlocker(len(cs.G))
			parallel(len(cs.G), func(g int) {
				defer bl.finished.Add(1)
				for _, op := range cs.G[g] {
					write := !cs.RW || op%3 == 0
					switch (op / 3) % 5 {
					case 4:
						// one sync.Locker value shared by all goroutines (as with sync.Cond)
						l := sharedW
						if !write {
							l = sharedR
						}
						if op%7 == 0 {
							// misuse: Unlock on a Locker value that holds nothing panics and must not
							// release anybody else's hold
							func() {
								defer func() { _ = recover() }()
								if cs.RW {
									rw.Locker().Unlock()
								} else {
									mu.Locker().Unlock()
								}
							}()
						}
						// (sometimes in a burst: the Locker's own bookkeeping is shared state, too)
						reps := 1
						if op%2 == 1 {
							reps += op % 17
						}
						for i := 0; i < reps; i++ {
							l.Lock()
							enter(write)
							if i%4 == 0 {
								runtime.Gosched()
							}
							if (op+i)%3 == 0 {
								probe(write, "a shared Locker")
							}
							leave(write)
							l.Unlock()
						}
					case 0, 1:
						bl.block(func(ctx context.Context) {
							ctx, cancel := context.WithCancel(ctx)
							defer cancel()
							if op%11 == 0 {
								go cancel()
							}
							rel, err := lock(ctx, write)
							if err == nil {
								enter(write)
								runtime.Gosched()
								if op%4 == 1 {
									probe(write, "Lock")
								}
								leave(write)
								rel()
								if op%5 == 0 {
									rel() // double release must not free somebody else's lock
								}
							}
						})
					case 2:
						if rel, ok := try(write); ok {
							enter(write)
							leave(write)
							rel()
							if op%5 == 0 {
								rel()
							}
						}
					default:
						// two goroutines race to release the same acquisition
						bl.block(func(ctx context.Context) {
							rel, err := lock(ctx, write)
							if err == nil {
								enter(write)
								leave(write)
								var wg sync.WaitGroup
								for i := 0; i < 2; i++ {
									wg.Add(1)
									go func() { defer wg.Done(); rel() }()
								}
								wg.Wait()
							}
						})
					}
				}
			})
			close(bl.done)
			if rel, ok := try(true); !ok {
				f.add("C01", "csync:not-free-at-end", "after every holder released, TryLock(write) fails")
			} else {
				rel()
			}
		})
}

// ---- C11: exactly one SetResult wins, everyone sees it ----

func TestC11Free(t *testing.T) {
	drive(t, "C11", "2..10 goroutines with real parallelism: SetResult / Await races on 1..8 promises, and on one PromiseContainer {SetPromise(resolved promise carrying the goroutine's next stamp) followed by Await, GetPromise+Await}; holders sometimes probe the lock themselves (a conflicting TryLock by the holder must fail); oracle: exactly one SetResult per promise returns true and every Await returns that call's value; a container await returns the current promise's result: after its own SetPromise returned a goroutine never gets one of its own older stamps, and the stamps of one writer seen by one reader never go backwards; non-trivial iff >= 2 goroutines; distinct by program", 16,
		func(cs Case, v *ev.Verdict) {
			f := &failer{v: v}
			prs := make([]*promise.Promise[int], cs.Objs)
			wins := make([]atomic.Int32, cs.Objs)
			winVal := make([]atomic.Int64, cs.Objs)
			for i := range prs {
				prs[i] = promise.NewPromise[int]()
			}
			pc := promise.NewPromiseContainer[int]()
			const stampBase = 1000000
			type seen struct{ obj, val int }
			var rmu sync.Mutex
			var results []seen
			var awg sync.WaitGroup
			actx, acancel := context.WithCancel(context.Background())
			isSet := func(op int) bool { return op%8 < 4 && op%4 != 3 }
			parallel(len(cs.G), func(g int) {
				var lastSeen [16]int
				own := 0
				look := func(x int, where string) {
					if x == 0 {
						return
					}
					w, seq := x/stampBase-1, x%stampBase
					if seq < lastSeen[w] {
						if w == g {
							f.add("C11", "promisecontainer:stale-own-promise", "%s returned stamp %d of goroutine %d although that goroutine's SetPromise(stamp %d) had already returned", where, seq, w, lastSeen[w])
						} else {
							f.add("C11", "promisecontainer:replacement-order-reversed", "%s returned stamp %d of writer %d after a later stamp %d of the same writer had been returned", where, seq, w, lastSeen[w])
						}
					}
					if seq > lastSeen[w] {
						lastSeen[w] = seq
					}
				}
				for k, op := range cs.G[g] {
					o := op % cs.Objs
					val := 1 + g*1000 + k
					switch {
					case isSet(op):
						if prs[o].SetResult(val, nil) {
							wins[o].Add(1)
							winVal[o].Store(int64(val))
						}
					case op%8 < 4:
						// awaiters run beside the setters; leftovers are cancelled at the end
						awg.Add(1)
						go func() {
							defer awg.Done()
							if x, err := prs[o].Await(actx); err == nil {
								rmu.Lock()
								results = append(results, seen{o, x})
								rmu.Unlock()
							}
						}()
					case op%8 < 6:
						own++
						pc.SetPromise(promise.NewPromiseWithResult((g+1)*stampBase+own, nil))
						lastSeen[g] = own
						if x, err := pc.Await(actx); err == nil {
							look(x, "PromiseContainer.Await")
						}
					default:
						if p, _ := pc.GetPromise(); p != nil {
							if x, err := p.Await(actx); err == nil {
								look(x, "GetPromise().Await")
							}
						}
					}
				}
			})
			acancel()
			awg.Wait()
			for o := range prs {
				set := false
				for _, prog := range cs.G {
					for _, op := range prog {
						if op%cs.Objs == o && isSet(op) {
							set = true
						}
					}
				}
				if n := wins[o].Load(); (set && n != 1) || (!set && n != 0) {
					f.add("C11", "promise:two-winners", "%d SetResult calls on one promise returned true (want exactly %v)", n, set)
				}
			}
			for _, s := range results {
				if int64(s.val) != winVal[s.obj].Load() {
					f.add("C11", "promise:non-winning-result", "Await returned %d but the winning SetResult stored %d", s.val, winVal[s.obj].Load())
				}
			}
		})
}

// ---- C02: a cancelled Lock leaves no trace, also when the internal mutex is contended ----

func TestC02Free(t *testing.T) {
	drive(t, "C02", "one RWMutex whose read lock is held by the harness for the whole case; goroutine 0 is the only writer: each of its ops is Lock(write) with a context that is cancelled concurrently (the call can only return context.Canceled), followed at once by a read TryLock; 1..9 further goroutines keep the lock's internal mutex busy with read TryLock/Lock+release and paired Lock/Unlock on one shared RLocker; oracle: the cancelled write Lock returns context.Canceled, and the read TryLock issued right after its return succeeds (no writer holds or waits any more, so the cancelled call must not be counted); at the end, after every release, a write TryLock succeeds; non-trivial iff >= 2 goroutines; distinct by program", 20,
		func(cs Case, v *ev.Verdict) {
			f := &failer{v: v}
			var rw csync.RWMutex
			hold, ok := rw.TryLock(false)
			if !ok {
				f.add("C02", "csync:fresh-lock-refused", "read TryLock on a new RWMutex failed")
				return
			}
			var writerDone atomic.Bool
			rl := rw.RLocker()
			parallel(len(cs.G), func(g int) {
				if g == 0 {
					defer writerDone.Store(true)
					for _, op := range cs.G[0] {
						ctx, cancel := context.WithCancel(context.Background())
						switch op % 3 {
						case 0:
							cancel()
						case 1:
							go cancel()
						default:
							go func() {
								for i := 0; i < op%7; i++ {
									runtime.Gosched()
								}
								cancel()
							}()
						}
						rel, err := rw.Lock(ctx, true)
						cancel()
						if err == nil {
							f.add("C02", "csync:write-granted-beside-reader", "a write Lock was granted while a read lock is held")
							rel()
							return
						}
						if err != context.Canceled {
							f.add("C02", "csync:wrong-error", "cancelled Lock returned %v", err)
						}
						// as if the call had never been made: readers are admitted again
						r2, ok := rw.TryLock(false)
						if !ok {
							f.add("C02", "csync:cancelled-writer-still-counted", "a read TryLock right after a cancelled write Lock returned was refused although no writer holds or waits")
							return
						}
						r2()
					}
					return
				}
				for _, op := range cs.G[g] {
					if writerDone.Load() {
						return
					}
					if op%5 == 4 {
						// one RLocker value shared by all goroutines: paired Lock / Unlock
						// (a short burst: the Locker's own bookkeeping is contended, too)
						for i := 0; i <= op%40; i++ {
							rl.Lock()
							if (op+i)%8 == 0 {
								runtime.Gosched()
							}
							rl.Unlock()
						}
						continue
					}
					if op%2 == 0 {
						if r, ok := rw.TryLock(false); ok {
							runtime.Gosched()
							if op%6 == 0 {
								// the same release function called by two goroutines at once: one release
								var rwg sync.WaitGroup
								for i := 0; i < 2; i++ {
									rwg.Add(1)
									go func() { defer rwg.Done(); r() }()
								}
								rwg.Wait()
							} else {
								r()
							}
						}
					} else {
						ctx, cancel := context.WithCancel(context.Background())
						go cancel()
						if r, err := rw.Lock(ctx, false); err == nil {
							if op%3 == 0 {
								var rwg sync.WaitGroup
								for i := 0; i < 2; i++ {
									rwg.Add(1)
									go func() { defer rwg.Done(); r() }()
								}
								rwg.Wait()
							} else {
								r()
							}
						}
						cancel()
					}
				}
			})
			hold()
			if r, ok := rw.TryLock(true); !ok {
				f.add("C02", "csync:not-free-at-end", "write TryLock failed after every holder released and every waiter was cancelled")
			} else {
				r()
			}
		})
}

// ---- C09: a reference's view never ends on a stale value, the resolver never overlaps ----

func TestC09Free(t *testing.T) { refcountFree(t, "C09") }

// TestC08Free runs the same programs and decides the release-count clause (C08).
func TestC08Free(t *testing.T) { refcountFree(t, "C08") }

func refcountFree(t *testing.T, prop string) {
	drive(t, prop, "one RefCount (always referenced by an anchor reference, resolver returns fresh value ids) with real parallelism: goroutine 0 replaces the context again and again (each replacement drops the value and resolves afresh), the others AddRef with a recording callback (every 4th nil), Release some of them, call released() handles (also from inside a reference callback, which runs under the container's mutex) and run Access with a callback that returns at once; afterwards the final value is awaited; oracle: the resolver is never in two calls at once, no callback is told about a value whose release function has already run, and the last state delivered to every unreleased reference's callback is the final value (a reference added while a value was being replaced must not be left with the replaced value); C08: after the last reference is released every value the resolver produced has had its release function called exactly once; half of the cases run beside a goroutine forcing preemption through runtime.GC; non-trivial iff >= 2 goroutines; distinct by program", 16,
		func(cs Case, v *ev.Verdict) {
			f := &failer{v: v}
			var nextVal, inResolver atomic.Int32
			relAt := make([]atomic.Int32, 4096)             // relAt[id % len] == id once value id's release func ran
			relN := make([]atomic.Int32, 4096)              // number of release calls per value id
			handles := make([]atomic.Pointer[func()], 4096) // released() handle of each value
			invalidated := make([]atomic.Bool, 4096)        // released() was called for this value
			resolver := func(ctx context.Context, released func()) (int, func(), error) {
				if n := inResolver.Add(1); n > 1 {
					f.add("C09", "refcount:resolver-overlap", "%d resolver calls running at once", n)
				}
				runtime.Gosched()
				id := int(nextVal.Add(1))
				if id < len(handles) {
					handles[id].Store(&released)
				}
				inResolver.Add(-1)
				return id, func() { relAt[id%len(relAt)].Store(int32(id)); relN[id%len(relN)].Add(1) }, nil
			}
			root, cancelRoot := context.WithCancel(context.Background())
			defer cancelRoot()
			target := ccontainer.NewCContainer(0)
			rc := refcount.NewRefCount[int](root, false, target, nil, resolver)
			type view struct {
				mu       sync.Mutex
				resolved bool
				val      int
				n        int
			}
			var vmu sync.Mutex
			var views []*view
			refs := map[*view]*refcount.Ref[int]{}
			var validating atomic.Bool // references reject values only while the goroutines run
			validating.Store(true)
			add := func(nilCb bool) (*view, *refcount.Ref[int]) {
				vw := &view{}
				var cb func(bool, int, error)
				if !nilCb {
					cb = func(resolved bool, val int, err error) {
						if resolved && int(relAt[val%len(relAt)].Load()) == val {
							f.add("C09", "refcount:released-value-delivered", "a reference callback was told (resolved, value %d) after that value's release function had run", val)
							f.add("C08", "refcount:released-value-exposed", "value %d was handed to a reference callback after its release function had run", val)
						}
						vw.mu.Lock()
						vw.resolved, vw.val = resolved, val
						vw.n++
						vw.mu.Unlock()
						// a validating reference: it rejects some values on sight, from inside its
						// callback (the RefCount's mutex is held by the caller of the callback)
						if validating.Load() && resolved && val%7 == 3 && val < len(handles) {
							if h := handles[val].Load(); h != nil && invalidated[val].CompareAndSwap(false, true) {
								(*h)()
							}
						}
					}
				}
				ref := rc.AddRef(cb)
				vmu.Lock()
				if !nilCb {
					views = append(views, vw)
				}
				refs[vw] = ref // also references without a callback: they are released at the end
				vmu.Unlock()
				return vw, ref
			}
			add(false) // anchor
			var stopGC atomic.Bool
			var gwg sync.WaitGroup
			if cs.RW {
				// force asynchronous preemption so that a goroutine can be suspended anywhere
				gwg.Add(1)
				go func() {
					defer gwg.Done()
					for !stopGC.Load() {
						runtime.GC()
					}
				}()
			}
			parallel(len(cs.G), func(g int) {
				var mine []*view
				var mineRefs []*refcount.Ref[int]
				for k, op := range cs.G[g] {
					if g == 0 {
						// (the contexts end with root, after the final look)
						ctx, cancel := context.WithCancel(root)
						_ = cancel
						rc.SetContext(ctx)
						if op%3 == 0 {
							runtime.Gosched()
						}
						continue
					}
					if op%8 == 7 {
						// an Access consumer beside the context changes: it must come back (the
						// resolver never fails and the callback returns at once)
						if err := rc.Access(context.Background(), func(ctx context.Context, val int) error {
							if op%16 == 7 {
								runtime.Gosched()
							}
							return nil
						}); err != nil {
							f.add("C10", "refcount:access-error", "Access with a live context and a callback that returns nil returned %v", err)
						}
						continue
					}
					switch op % 4 {
					case 0, 1:
						vw, ref := add(op%16 == 1)
						mine, mineRefs = append(mine, vw), append(mineRefs, ref)
					case 2:
						if len(mine) > 0 {
							i := k % len(mine)
							mineRefs[i].Release()
							vmu.Lock()
							delete(refs, mine[i])
							vmu.Unlock()
							mine = append(mine[:i], mine[i+1:]...)
							mineRefs = append(mineRefs[:i], mineRefs[i+1:]...)
						}
					default:
						// the latest value is declared invalid while everybody else is busy on the container
						if id := int(nextVal.Load()); id > 0 && id < len(handles) {
							if h := handles[id].Load(); h != nil {
								invalidated[id].Store(true)
								(*h)()
							}
						}
					}
				}
			})
			stopGC.Store(true)
			gwg.Wait()
			validating.Store(false)
			rc.AddRef(nil).Release() // a callback that was deciding meanwhile is through
			// released() makes the value be dropped (the anchor reference is still held): every value
			// it was called for gets released (one that never is shows up as a stalled case)
			waitUntil(func() bool {
				for id := range invalidated {
					if invalidated[id].Load() && relN[id].Load() == 0 {
						return false
					}
				}
				return true
			})
			final, fref, err := rc.Wait(context.Background())
			if err != nil {
				f.add("C09", "refcount:no-final-value", "Wait after the last context change returned %v", err)
				return
			}
			// Wait returns as soon as its own callback ran; the section that delivers the value to
			// the other references may still be in progress: pass through the lock once more
			rc.AddRef(nil).Release()
			vmu.Lock()
			for _, vw := range views {
				if _, live := refs[vw]; !live {
					continue
				}
				vw.mu.Lock()
				if !vw.resolved || vw.val != final {
					f.add("C09", "refcount:reference-left-with-stale-value", "the last callback of an unreleased reference said (resolved=%v, value %d) after %d callbacks, but the container's current value is %d", vw.resolved, vw.val, vw.n, final)
				}
				vw.mu.Unlock()
			}
			for _, ref := range refs {
				ref.Release()
			}
			vmu.Unlock()
			fref.Release()
			// C08: nothing references the container any more (keep-unreferenced is off): every value
			// must be released exactly once. A superseded resolver call may still be on its way to
			// hand back its stale result: give it the processor until every value has been seen.
			n := int(nextVal.Load())
			if n < len(relN) {
				waitUntil(func() bool {
					for id := 1; id <= n; id++ {
						if relN[id].Load() == 0 {
							return false // (a value that is never released shows up as a stalled case)
						}
					}
					return inResolver.Load() == 0
				})
				if tv := target.GetValue(); tv != 0 {
					f.add("C08", "refcount:released-but-exposed", "after the last reference was released (every value released) the target container still holds value %d", tv)
				}
				for id := 1; id <= n; id++ {
					if c := relN[id].Load(); c != 1 {
						f.add("C08", "refcount:release-count-at-end", "after the last reference was released the release function of value %d has run %d times, want exactly once (%d values resolved)", id, c, n)
						break
					}
				}
			}
		})
}

// ---- C16: Once never two calls at once, Memo exactly one call ----

func TestC16Free(t *testing.T) {
	drive(t, "C16", "2..10 goroutines call 1..8 MemoizeFunc / Once objects with real parallelism; the wrapped functions count concurrent and total invocations; non-trivial iff >= 2 goroutines; distinct by program", 12,
		func(cs Case, v *ev.Verdict) {
			f := &failer{v: v}
			type obj struct {
				calls, active atomic.Int32
				memo          func() (int, error)
				once          *promise.Once[int]
				okVal         atomic.Int64
			}
			objs := make([]*obj, cs.Objs)
			for i := range objs {
				o := &obj{}
				o.memo = memo.MemoizeFunc(func() (int, error) {
					if a := o.active.Add(1); a > 1 {
						f.add("C16", "memo:called-twice", "memoized function running %d times at once", a)
					}
					n := o.calls.Add(1)
					runtime.Gosched()
					o.active.Add(-1)
					return int(n), nil
				})
				var onceActive, onceCalls atomic.Int32
				o.once = promise.NewOnce(func(ctx context.Context) (int, error) {
					if a := onceActive.Add(1); a > 1 {
						f.add("C16", "once:concurrent-invocations", "Once function running %d times at once", a)
					}
					n := onceCalls.Add(1)
					runtime.Gosched()
					defer onceActive.Add(-1)
					if o.okVal.Load() != 0 {
						f.add("C16", "once:called-after-success", "Once function invoked again after it had succeeded")
					}
					if n%2 == 1 {
						return 0, fmt.Errorf("fail-%d", n)
					}
					o.okVal.Store(int64(n))
					return int(n), nil
				})
				objs[i] = o
			}
			parallel(len(cs.G), func(g int) {
				seenErr := map[string]bool{} // failures this goroutine has been handed already
				for _, op := range cs.G[g] {
					o := objs[op%cs.Objs]
					if cs.RW {
						x, err := o.memo()
						if err != nil || x != 1 {
							f.add("C16", "memo:wrong-result", "memoized call returned (%d,%v), the single invocation returned (1,nil)", x, err)
						}
					} else {
						x, err := o.once.Resolve(context.Background())
						if err == nil && int64(x) != o.okVal.Load() {
							f.add("C16", "once:wrong-value", "Resolve returned %d, the successful invocation returned %d", x, o.okVal.Load())
						}
						if err != nil {
							// every failure is a fresh error value; a Resolve that starts after an earlier
							// one returned it runs (or joins) a later invocation
							key := fmt.Sprintf("%d/%v", op%cs.Objs, err)
							if seenErr[key] {
								f.add("C16", "once:stale-error", "Resolve returned %v again although an earlier Resolve of the same goroutine had already returned that failure (the function is not called again after it failed)", err)
								return
							}
							seenErr[key] = true
						}
					}
				}
			})
			if cs.RW {
				for _, o := range objs {
					if n := o.calls.Load(); n > 1 {
						f.add("C16", "memo:called-twice", "memoized function invoked %d times in total", n)
					}
				}
			}
		})
}

// ---- C15: SwapValue increments are never lost ----

func TestC15Free(t *testing.T) {
	drive(t, "C15", "2..10 goroutines x 1..30 ops on two CContainers with real parallelism: {SwapValue(inc), GetValue, WaitValueChange} on a counter, and {SetValue(own increasing stamp) followed by GetValue, SwapValue(identity, yielding while it holds the lock), GetValue} on a cell of (writer, sequence) stamps; oracle: final counter == number of increments, callbacks never run concurrently, and reads are consistent with a single atomic cell: after its own SetValue returned a goroutine never reads one of its own older stamps, and the stamps of one writer seen by one reader never go backwards; a third cell holds 16-word arrays that are always stored uniform, every value read from it must be uniform; non-trivial iff >= 2 goroutines; distinct by program", 30,
		func(cs Case, v *ev.Verdict) {
			f := &failer{v: v}
			c := ccontainer.NewCContainer(0)
			c2 := ccontainer.NewCContainer(0)
			// a multi-word value: every stored array is uniform, so a read that overlaps a write
			// without synchronisation shows up as a mixed array ("a value the cell never held")
			type wide [16]uint64
			uniform := func(x uint64) (w wide) {
				for i := range w {
					w[i] = x
				}
				return w
			}
			c3 := ccontainer.NewCContainer(wide{})
			lookWide := func(w wide, where string) {
				for i := range w {
					if w[i] != w[0] {
						f.add("C15", "ccontainer:torn-value", "%s returned a value the cell never held: element 0 is %d, element %d is %d", where, w[0], i, w[i])
						return
					}
				}
			}
			const stampBase = 1000000
			var incs, inCb atomic.Int32
			parallel(len(cs.G), func(g int) {
				var lastSeen [16]int // per writer: highest sequence this goroutine has read
				own := 0
				look := func(x int, where string) {
					if x == 0 {
						return
					}
					w, seq := x/stampBase-1, x%stampBase
					if seq < lastSeen[w] {
						if w == g {
							f.add("C15", "ccontainer:stale-own-write", "%s read stamp %d of goroutine %d although that goroutine's SetValue(%d) had already returned", where, seq, w, lastSeen[w])
						} else {
							f.add("C15", "ccontainer:write-order-reversed", "%s read stamp %d of writer %d after having read its later stamp %d", where, seq, w, lastSeen[w])
						}
					}
					if seq > lastSeen[w] {
						lastSeen[w] = seq
					}
				}
				for _, op := range cs.G[g] {
					switch op % 7 {
					case 0, 1:
						incs.Add(1)
						c.SwapValue(func(x int) int {
							if a := inCb.Add(1); a > 1 {
								f.add("C15", "ccontainer:swap-interleaved", "%d SwapValue callbacks running at once", a)
							}
							runtime.Gosched()
							inCb.Add(-1)
							return x + 1
						})
					case 2:
						_ = c.GetValue()
					case 3:
						ctx, cancel := context.WithCancel(context.Background())
						old := c.GetValue()
						go cancel()
						if x, err := c.WaitValueChange(ctx, old, nil); err == nil && x == old {
							f.add("C15", "ccontainer:condition-not-satisfied", "WaitValueChange(%d) returned %d", old, x)
						}
						cancel()
					case 4:
						own++
						c2.SetValue((g+1)*stampBase + own)
						lastSeen[g] = own
						look(c2.GetValue(), "GetValue")
						c3.SetValue(uniform(uint64((g+1)*stampBase + own)))
						lookWide(c3.GetValue(), "GetValue")
					case 5:
						// keep the second cell's lock busy for a while without changing it
						look(c2.SwapValue(func(x int) int {
							runtime.Gosched()
							return x
						}), "SwapValue")
						lookWide(c3.SwapValue(func(x wide) wide {
							lookWide(x, "SwapValue callback argument")
							return uniform(x[0] + 1)
						}), "SwapValue")
					default:
						look(c2.GetValue(), "GetValue")
						lookWide(c3.GetValue(), "GetValue")
						switch op % 5 {
						case 0:
							// a waiter on the stamped cell while several writers store into it
							ctx, cancel := context.WithCancel(context.Background())
							old := c2.GetValue()
							go cancel()
							if x, err := c2.WaitValueChange(ctx, old, nil); err == nil {
								if x == old {
									f.add("C15", "ccontainer:condition-not-satisfied", "WaitValueChange(%d) returned %d", old, x)
								}
								look(x, "WaitValueChange")
							}
							cancel()
						case 1:
							// a validator that reads the container it is waiting on
							x, err := c2.WaitValueWithValidator(context.Background(), func(v int) (bool, error) {
								_ = c2.GetValue()
								return true, nil
							}, nil)
							if err != nil {
								f.add("C15", "ccontainer:error-source", "WaitValueWithValidator with an accepting validator returned %v", err)
							}
							look(x, "WaitValueWithValidator")
						}
					}
				}
			})
			if got := c.GetValue(); got != int(incs.Load()) {
				f.add("C15", "ccontainer:lost-update", "%d concurrent SwapValue increments ended at %d", incs.Load(), got)
			}
		})
}

// ---- C18: limit and exactly-once under real parallelism ----

func TestC18Free(t *testing.T) {
	drive(t, "C18", "2..10 producers enqueue batches into a queue with limit 1..3 (or unlimited), constructed with 0/500/1000 short initial jobs, with real parallelism; 1..4 pollers call the zero-argument Enqueue() throughout (half of the cases with a goroutine forcing preemption through runtime.GC); jobs count concurrent and total executions; every returned (queued, running) pair is checked; WaitIdle at the end; non-trivial iff >= 2 producers; distinct by program", 10,
		func(cs Case, v *ev.Verdict) {
			f := &failer{v: v}
			limit := cs.Objs % 4 // 0 = unlimited
			var q *conc.ConcurrentQueue
			var active, total, enq atomic.Int32
			var mu sync.Mutex
			runs := map[int]int{}
			mk := func(id int) func() {
				return func() {
					if a := active.Add(1); limit > 0 && int(a) > limit {
						f.add("C18", "conc:limit-exceeded", "%d jobs executing, limit %d", a, limit)
					}
					runtime.Gosched()
					mu.Lock()
					runs[id]++
					mu.Unlock()
					total.Add(1)
					active.Add(-1)
				}
			}
			var foreignRuns atomic.Int32
			foreign := func() { foreignRuns.Add(1) }
			// 0, 500 or 1000 short jobs are handed to the constructor: its workers start
			// (and finish jobs) while the constructor may still be distributing the rest
			var initial []func()
			for i := 0; i < (cs.Objs%3)*500; i++ {
				initial = append(initial, mk(5000000+i))
			}
			enq.Add(int32(len(initial)))
			q = conc.NewConcurrentQueue(limit, initial...)
			// pollers read the counters through the zero-argument Enqueue while the producers
			// and workers run; a collector goroutine forces asynchronous preemption so that a
			// poller can be suspended between any two instructions
			var stopPoll atomic.Bool
			var pwg sync.WaitGroup
			for p := 0; p < 1+cs.Objs%4; p++ {
				pwg.Add(1)
				go func() {
					defer pwg.Done()
					for !stopPoll.Load() {
						qd, rn := q.Enqueue()
						if limit > 0 && (rn > limit || (qd > 0 && rn != limit)) {
							f.add("C18", "conc:pair-queued-while-free", "a polling Enqueue() returned (queued=%d, running=%d) with limit %d", qd, rn, limit)
							return
						}
					}
				}()
			}
			if cs.RW {
				pwg.Add(1)
				go func() {
					defer pwg.Done()
					for !stopPoll.Load() {
						runtime.GC()
					}
				}()
			}
			// observers stay blocked in WatchState / WaitIdle while workers come and go
			wctx, wcancel := context.WithCancel(context.Background())
			for w := 0; w < 2; w++ {
				pwg.Add(1)
				go func() {
					defer pwg.Done()
					if w == 0 {
						_ = q.WatchState(wctx, nil, func(qd, rn int) (bool, error) {
							if limit > 0 && (rn > limit || (qd > 0 && rn != limit)) {
								f.add("C18", "conc:pair-queued-while-free", "WatchState reported (queued=%d, running=%d) with limit %d", qd, rn, limit)
							}
							return true, nil
						})
						return
					}
					for wctx.Err() == nil {
						_ = q.WaitIdle(wctx, nil)
						runtime.Gosched()
					}
				}()
			}
			defer func() { stopPoll.Store(true); wcancel(); pwg.Wait() }()
			parallel(len(cs.G), func(g int) {
				for k, op := range cs.G[g] {
					n := op % 4
					jobs := make([]func(), n)
					for i := range jobs {
						jobs[i] = mk(g*10000 + k*10 + i)
					}
					enq.Add(int32(n))
					qd, rn := q.Enqueue(jobs...)
					// the caller reuses its batch slice as soon as Enqueue has returned
					for i := range jobs {
						jobs[i] = foreign
					}
					if limit > 0 && (rn > limit || (qd > 0 && rn != limit)) {
						f.add("C18", "conc:pair-queued-while-free", "Enqueue returned (queued=%d, running=%d) with limit %d", qd, rn, limit)
					}
				}
			})
			// every job has run once the harness-side counter says so; the queue must then report
			// (0, 0) as soon as its workers have done their bookkeeping (no wall clock involved:
			// the workers get the processor until they have)
			// (counters that never settle, or a job that never runs, show up as a stalled case)
			waitUntil(func() bool {
				if foreignRuns.Load() != 0 {
					return true
				}
				if total.Load() < enq.Load() {
					return false
				}
				qd, rn := q.Enqueue()
				return qd == 0 && rn == 0
			})
			if foreignRuns.Load() != 0 {
				f.add("C18", "conc:foreign-job-ran", "a function that was never enqueued (the caller wrote it into its batch slice after Enqueue had returned) ran %d times", foreignRuns.Load())
				return
			}
			if err := q.WaitIdle(context.Background(), nil); err != nil {
				f.add("C18", "conc:waitidle", "WaitIdle returned %v", err)
			}
			if n := foreignRuns.Load(); n != 0 {
				f.add("C18", "conc:foreign-job-ran", "a function that was never enqueued (the caller wrote it into its batch slice after Enqueue had returned) ran %d times", n)
			}
			if total.Load() != enq.Load() {
				f.add("C18", "conc:idle-with-unfinished-job", "WaitIdle returned nil after %d of %d jobs had run", total.Load(), enq.Load())
			}
			mu.Lock()
			for id, n := range runs {
				if n != 1 {
					f.add("C18", "conc:job-twice", "job %d ran %d times", id, n)
				}
			}
			mu.Unlock()
		})
}

// ---- C07: one instance per key, also when the key is requested from several goroutines at once ----

func TestC07Free(t *testing.T) {
	drive(t, "C07", "one Keyed with a context; 2..10 goroutines x 1..12 ops {SetKey(k, start), RestartRoutine(k), GetKey(k)} on 1..3 keys with real parallelism and a yielding constructor; keys are never removed, every routine counts itself in and stays until its context is cancelled; oracle: at most one instance per key executes at any time; non-trivial iff >= 2 goroutines; distinct by program", 12,
		func(cs Case, v *ev.Verdict) {
			f := &failer{v: v}
			nkeys := 1 + cs.Objs%3
			active := make([]atomic.Int32, nkeys)
			var ctors atomic.Int32
			k := keyed.NewKeyed(func(key int) (keyed.Routine, int) {
				ctors.Add(1)
				runtime.Gosched()
				return func(ctx context.Context) error {
					if n := active[key].Add(1); n > 1 {
						f.add("C07", "keyed:overlap", "%d instances of key %d are executing at once", n, key)
					}
					<-ctx.Done()
					runtime.Gosched()
					active[key].Add(-1)
					return ctx.Err()
				}, key
			})
			root, cancel := context.WithCancel(context.Background())
			defer cancel()
			k.SetContext(root, false)
			parallel(len(cs.G), func(g int) {
				for _, op := range cs.G[g] {
					key := op % nkeys
					switch (op / 3) % 4 {
					case 0, 1:
						k.SetKey(key, op%2 == 0)
					case 2:
						k.RestartRoutine(key)
					default:
						k.GetKey(key)
					}
				}
			})
			k.ClearContext()
			cancel()
			// every instance derives from the root context and returns now
			waitUntil(func() bool {
				for i := range active {
					if active[i].Load() != 0 {
						return false
					}
				}
				return true
			})
		})
}

// ---- C17: the functions handed to CallConcurrently are the ones that run ----

func TestC17Free(t *testing.T) {
	drive(t, "C17", "CallConcurrently is given a slice of 2..10 functions (fns...) with a context that is already cancelled or cancelled concurrently, so that it may return before its goroutines have started; as soon as it has returned the caller overwrites the slice with another function; oracle: every original function runs exactly once, the other one never; non-trivial iff >= 2 functions; distinct by program", 8,
		func(cs Case, v *ev.Verdict) {
			f := &failer{v: v}
			for _, code := range cs.G[0] {
				n := len(cs.G)
				runs := make([]atomic.Int32, n)
				var foreign atomic.Int32
				var wg sync.WaitGroup
				fns := make([]ccall.CallConcurrentlyFunc, n)
				var fctx atomic.Pointer[context.Context]
				for i := range fns {
					wg.Add(1)
					fns[i] = func(ctx context.Context) error {
						defer wg.Done()
						fctx.Store(&ctx)
						runs[i].Add(1)
						if (code+i)%3 == 0 {
							return fmt.Errorf("fn-%d", i)
						}
						return nil
					}
				}
				ctx, cancel := context.WithCancel(context.Background())
				if code%2 == 1 {
					// a context type of the caller's own (derived contexts hear of its end later)
					ctx, cancel = newOwnCtx()
				}
				switch code % 3 {
				case 0:
					cancel()
				case 1:
					go cancel()
				}
				_ = ccall.CallConcurrently(ctx, fns...)
				if p := fctx.Load(); p != nil && (*p).Err() == nil {
					f.add("C17", "ccall:ctx-not-cancelled", "CallConcurrently has returned and the context it gave to its functions is still live (caller context of a type of its own: %v)", code%2 == 1)
					return
				}
				other := func(context.Context) error { foreign.Add(1); return nil }
				for i := range fns {
					fns[i] = other
				}
				cancel()
				// every function that was handed over runs (exactly once), also after an early return
				done := make(chan struct{})
				go func() { wg.Wait(); close(done) }()
				waitUntil(func() bool {
					select {
					case <-done:
						return true
					default:
					}
					return foreign.Load() > 0 // (a function that never runs shows up as a stalled case)
				})
				if foreign.Load() > 0 {
					f.add("C17", "ccall:foreign-function-ran", "a function that was never passed to CallConcurrently (written into the caller's slice after the call had returned) ran %d times", foreign.Load())
					return
				}
				for i := range runs {
					if r := runs[i].Load(); r != 1 {
						f.add("C17", "ccall:invocation-count", "function %d of %d ran %d times, want exactly once", i, n, r)
						return
					}
				}
			}
		})
}

// TestC17FreeWide: many short functions plus one slow one, several callers at once; the
// call's own bookkeeping (started / running counters) is what is contended here.
func TestC17FreeWide(t *testing.T) {
	drive(t, "C17", "2..10 goroutines each issue 1..8 CallConcurrently calls with a live context and 16..64 functions: all return nil at once except one that yields 0..4 times and then returns an error (3 of 4 calls) or nil; oracle: the result is that function's error (nil iff it returned nil), a nil result comes only after every function has returned, and every function runs exactly once; a call that never returns shows as a stalled case; non-trivial iff >= 2 goroutines; distinct by program", 8,
		func(cs Case, v *ev.Verdict) {
			f := &failer{v: v}
			parallel(len(cs.G), func(g int) {
				for _, code := range cs.G[g] {
					n := 16 + code%49
					slow := (code / 3) % n
					var want error
					if code%4 != 0 {
						want = fmt.Errorf("slow-%d-%d", g, code)
					}
					runs := make([]atomic.Int32, n)
					var returned atomic.Int32
					fns := make([]ccall.CallConcurrentlyFunc, n)
					for i := range fns {
						fns[i] = func(ctx context.Context) error {
							defer returned.Add(1)
							runs[i].Add(1)
							if i == slow {
								for k := 0; k < code%5; k++ {
									runtime.Gosched()
								}
								return want
							}
							return nil
						}
					}
					got := ccall.CallConcurrently(context.Background(), fns...)
					if r := int(returned.Load()); got == nil && r != n {
						f.add("C17", "ccall:nil-before-all-returned", "CallConcurrently returned nil with a live context while only %d of %d functions had returned", r, n)
						return
					}
					if got != want {
						sig := "ccall:wrong-error"
						if got == nil {
							sig = "ccall:nil-despite-failure"
						}
						f.add("C17", sig, "CallConcurrently over %d functions returned %v, the only function that fails returned %v", n, got, want)
						return
					}
					// (after an error the call may return before the other functions have run)
					waitUntil(func() bool { return int(returned.Load()) == n })
					for i := range runs {
						if r := runs[i].Load(); r != 1 {
							f.add("C17", "ccall:invocation-count", "function %d of %d ran %d times, want exactly once", i, n, r)
							return
						}
					}
				}
			})
		})
}

// TestC05FreeMix: mutators of every kind run in parallel on one container; in the end the
// context is cleared and nothing may be left running with a live context.
func TestC05FreeMix(t *testing.T) {
	drive(t, "C05", "one StateRoutineContainer; 2..10 goroutines x 1..12 ops {RestartRoutine, SetContext(one of three contexts, restart or not), ClearContext, SetState(fresh|same|empty), SetStateRoutine(function|nil)} with real parallelism; every managed function registers its context and waits for its cancellation; then the main goroutine calls ClearContext; oracle: once that call has returned every instance that ever entered its function has a cancelled context, and so has every instance that enters later; non-trivial iff >= 2 goroutines; distinct by program", 12,
		func(cs Case, v *ev.Verdict) {
			f := &failer{v: v}
			var mu sync.Mutex
			var ctxs []context.Context
			fn := func(ctx context.Context, st int) error {
				mu.Lock()
				ctxs = append(ctxs, ctx)
				mu.Unlock()
				<-ctx.Done()
				return ctx.Err()
			}
			sc := routine.NewStateRoutineContainer[int](func(a, b int) bool { return a == b })
			var roots [3]context.Context
			var cancels [3]context.CancelFunc
			for i := range roots {
				roots[i], cancels[i] = context.WithCancel(context.Background())
			}
			defer func() {
				for _, c := range cancels {
					c()
				}
			}()
			sc.SetContext(roots[0], false)
			sc.SetStateRoutine(fn)
			sc.SetState(1)
			var next atomic.Int32
			next.Store(1)
			parallel(len(cs.G), func(g int) {
				for _, op := range cs.G[g] {
					switch op % 7 {
					case 0, 1:
						sc.RestartRoutine()
					case 2:
						sc.SetContext(roots[op%3], op%2 == 0)
					case 3:
						sc.ClearContext()
					case 4:
						switch (op / 7) % 3 {
						case 0:
							sc.SetState(int(next.Add(1)))
						case 1:
							sc.SetState(int(next.Load()))
						default:
							sc.SetState(0)
						}
					case 5:
						if op%2 == 0 {
							sc.SetStateRoutine(fn)
						} else {
							sc.SetStateRoutine(nil)
						}
					default:
						sc.SetContext(roots[op%3], true)
					}
				}
			})
			sc.ClearContext()
			live := func() int {
				mu.Lock()
				defer mu.Unlock()
				n := 0
				for _, c := range ctxs {
					if c.Err() == nil {
						n++
					}
				}
				return n
			}
			if n := live(); n > 0 {
				f.add("C05", "routine:live-instance-without-context", "ClearContext has returned and %d instance(s) of the managed function still have a live context", n)
				return
			}
			// late starters (goroutines created before the call) enter with a cancelled context
			for i := 0; i < 200; i++ {
				runtime.Gosched()
			}
			if n := live(); n > 0 {
				f.add("C05", "routine:live-instance-without-context", "%d instance(s) entered the managed function with a live context after ClearContext had returned", n)
			}
		})
}

// ---- C04: never two instances at once, also when the mutators run in parallel ----

func TestC04Free(t *testing.T) {
	drive(t, "C04", "one StateRoutineContainer with a context; 2..10 goroutines x 1..16 ops {SetState(fresh|same), SwapValue, SetStateRoutine(new function|nil), RestartRoutine, SetContext(new, restart)} with real parallelism; every managed function counts itself in, stays until its context is cancelled and then takes a few yields to return; oracle: the count never exceeds one; non-trivial iff >= 2 goroutines; distinct by program", 16,
		func(cs Case, v *ev.Verdict) {
			f := &failer{v: v}
			var active, entered atomic.Int32
			mk := func(id int) routine.StateRoutine[int] {
				return func(ctx context.Context, st int) error {
					entered.Add(1)
					if n := active.Add(1); n > 1 {
						f.add("C04", "routine:overlap", "%d instances of the managed function are executing at once (function %d, state %d)", n, id, st)
					}
					<-ctx.Done()
					for i := 0; i < id%4; i++ {
						runtime.Gosched()
					}
					active.Add(-1)
					return ctx.Err()
				}
			}
			sc := routine.NewStateRoutineContainer[int](func(a, b int) bool { return a == b })
			root, cancel := context.WithCancel(context.Background())
			defer cancel()
			sc.SetContext(root, false)
			sc.SetStateRoutine(mk(0))
			sc.SetState(1)
			var nextState atomic.Int32
			nextState.Store(1)
			parallel(len(cs.G), func(g int) {
				for k, op := range cs.G[g] {
					switch op % 6 {
					case 0:
						sc.SetState(int(nextState.Add(1)))
					case 1:
						sc.SwapValue(func(x int) int { return x + 1000 })
					case 2:
						sc.SetStateRoutine(mk(1 + g*100 + k))
					case 3:
						if op%12 == 3 {
							sc.SetStateRoutine(nil)
						} else {
							sc.SetState(int(nextState.Load()))
						}
					case 4:
						sc.RestartRoutine()
					default:
						ctx, c2 := context.WithCancel(root)
						_ = c2
						sc.SetContext(ctx, op%2 == 0)
					}
				}
			})
			sc.ClearContext()
			cancel()
			waitUntil(func() bool { return active.Load() == 0 })
		})
}

// ---- C05: a superseding call returns only after the instance is cancelled, also under lock contention ----

func TestC05Free(t *testing.T) {
	drive(t, "C05", "a StateRoutineContainer with a running instance; 1..9 contender goroutines keep the container lock busy (GetState / SetState(unchanged) with a yielding compare function) while one goroutine issues a superseding call (ClearContext | SetContext(nil) | SetState(empty) | SetState(other) | SetStateRoutine(nil) | RestartRoutine), in half of the rounds of the latter four right after the owner cancelled the root context, which in half of the cases is of a caller-defined Context type (cancellation reaches derived contexts asynchronously); oracle: when that call returns the instance that was running has a cancelled context; non-trivial iff >= 2 goroutines; distinct by program", 12,
		func(cs Case, v *ev.Verdict) {
			f := &failer{v: v}
			rounds := cs.G[0]
			for _, code := range rounds {
				sc := routine.NewStateRoutineContainer[int](func(a, b int) bool { runtime.Gosched(); return a == b })
				type inst struct{ ctx context.Context }
				var cur atomic.Pointer[inst]
				var entered atomic.Int32
				sc.SetStateRoutine(func(ctx context.Context, st int) error {
					cur.Store(&inst{ctx})
					entered.Add(1)
					<-ctx.Done()
					return ctx.Err()
				})
				root, cancel := context.WithCancel(context.Background())
				if cs.RW {
					// a context type of the caller's own: derived contexts learn of its
					// cancellation through a goroutine, a little after cancel() returned
					root, cancel = newOwnCtx()
				}
				sc.SetContext(root, false)
				sc.SetState(1)
				for entered.Load() == 0 {
					runtime.Gosched()
				}
				old := cur.Load()
				var stop atomic.Bool
				var wg sync.WaitGroup
				for g := 1; g < len(cs.G); g++ {
					wg.Add(1)
					go func() {
						defer wg.Done()
						for !stop.Load() {
							if g%2 == 0 {
								_ = sc.GetState()
							} else {
								sc.SetState(1) // unchanged: compare (which yields) runs under the lock
							}
						}
					}()
				}
				runtime.Gosched()
				name := ""
				if code%12 >= 6 && code%6 >= 2 {
					// the owner cancels the root context right before the superseding call
					cancel()
				}
				switch code % 6 {
				case 0:
					name = "ClearContext"
					sc.ClearContext()
				case 1:
					name = "SetContext(nil,false)"
					sc.SetContext(nil, false)
				case 2:
					name = "SetState(empty)"
					sc.SetState(0)
				case 3:
					name = "SetState(other)"
					sc.SetState(2)
				case 4:
					name = "SetStateRoutine(nil)"
					sc.SetStateRoutine(nil)
				default:
					name = "RestartRoutine"
					if !sc.RestartRoutine() {
						name = ""
					}
				}
				if name != "" && old.ctx.Err() == nil {
					f.add("C05", "routine:superseded-not-cancelled", "%s returned while %d goroutines kept the container busy, but the instance it superseded still has a live context", name, len(cs.G)-1)
				}
				stop.Store(true)
				wg.Wait()
				sc.ClearContext()
				cancel()
			}
		})
}

// ownCtx is a caller-defined context type (see routinex): WithCancel(ownCtx) has to
// watch its Done channel from a goroutine.
type ownCtx struct {
	context.Context
	mu   sync.Mutex
	done chan struct{}
	err  error
}

func newOwnCtx() (context.Context, context.CancelFunc) {
	c := &ownCtx{Context: context.Background(), done: make(chan struct{})}
	return c, func() {
		c.mu.Lock()
		if c.err == nil {
			c.err = context.Canceled
			close(c.done)
		}
		c.mu.Unlock()
	}
}

func (c *ownCtx) Done() <-chan struct{} { return c.done }

func (c *ownCtx) Err() error {
	c.mu.Lock()
	defer c.mu.Unlock()
	return c.err
}

// ---- C03: no missed broadcast under real contention (incl. the asynchronous slow path) ----

func TestC03Free(t *testing.T) {
	drive(t, "C03", "2..10 goroutines x 1..20 ops on one Broadcast guarding a counter: increments (each with a broadcast) through HoldLock / TryHoldLock (retried) / HoldLockMaybeAsync (asynchronous slow path under contention), read-only sections through the same three entry points that take the wait channel and remember it with the counter value, and Wait(counter >= k) with k <= the total number of increments (some with a context cancelled concurrently: their predicate is never evaluated after they returned); oracle: every other Wait returns nil having seen its predicate true, the final counter equals the number of increments, and at the start of every critical section each remembered channel is closed iff the counter has moved since it was taken; non-trivial iff >= 2 goroutines; distinct by program", 20,
		func(cs Case, v *ev.Verdict) {
			f := &failer{v: v}
			var b broadcast.Broadcast
			counter := 0
			total, nAsync := 0, 0
			for _, prog := range cs.G {
				for _, op := range prog {
					switch op % 8 {
					case 0, 1, 7:
						total++
					case 2:
						total++
						nAsync++
					case 4:
						nAsync++
					}
				}
			}
			// wait channels taken in earlier critical sections, with the counter value at that
			// moment; only touched inside critical sections
			type peek struct {
				ch  <-chan struct{}
				gen int
			}
			var peeks []peek
			verify := func() {
				keep := peeks[:0]
				for _, p := range peeks {
					closed := false
					select {
					case <-p.ch:
						closed = true
					default:
					}
					if closed && p.gen == counter {
						f.add("C03", "broadcast:closed-without-broadcast", "a wait channel taken at counter %d is closed although no broadcast happened since", p.gen)
					} else if !closed && p.gen != counter {
						f.add("C03", "broadcast:open-after-broadcast", "a wait channel taken at counter %d is still open at counter %d", p.gen, counter)
					}
					if p.gen == counter && len(keep) < 8 {
						keep = append(keep, p)
					}
				}
				peeks = keep
			}
			var asyncDone atomic.Int32
			var wwg sync.WaitGroup
			inc := func(broadcast func(), _ func() <-chan struct{}) { verify(); counter++; broadcast() }
			incAsync := func(broadcast func(), _ func() <-chan struct{}) { verify(); counter++; broadcast(); asyncDone.Add(1) }
			look := func(_ func(), getWaitCh func() <-chan struct{}) {
				verify()
				peeks = append(peeks, peek{getWaitCh(), counter})
			}
			lookAsync := func(_ func(), getWaitCh func() <-chan struct{}) {
				verify()
				peeks = append(peeks, peek{getWaitCh(), counter})
				asyncDone.Add(1)
			}
			parallel(len(cs.G), func(g int) {
				for _, op := range cs.G[g] {
					switch op % 8 {
					case 0, 7:
						b.HoldLock(inc)
					case 1:
						for !b.TryHoldLock(inc) {
							runtime.Gosched()
						}
					case 2:
						b.HoldLockMaybeAsync(incAsync)
					case 4:
						b.HoldLockMaybeAsync(lookAsync)
					case 5:
						b.HoldLock(look)
					case 6:
						_ = b.TryHoldLock(look)
					default:
						k := 0
						if total > 0 {
							k = 1 + op%total
						}
						// waiters run beside the incrementing goroutines (which never block), so every wait terminates
						wwg.Add(1)
						if op%16 == 11 {
							// a waiter whose context is cancelled while the lock is busy: whatever it
							// returns, its predicate is not evaluated once it has returned
							go func() {
								defer wwg.Done()
								ctx, cancel := context.WithCancel(context.Background())
								go cancel()
								var returned atomic.Bool
								sawTrue := false
								err := b.Wait(ctx, func(_ func(), _ func() <-chan struct{}) (bool, error) {
									if returned.Load() {
										f.add("C03", "broadcast:predicate-after-return", "the predicate of a Wait was evaluated after that Wait had returned")
									}
									sawTrue = counter >= k
									return sawTrue, nil
								})
								returned.Store(true)
								cancel()
								if err == nil && !sawTrue {
									f.add("C03", "broadcast:nil-without-true", "Wait(counter >= %d) returned nil although its predicate never returned true", k)
								} else if err != nil && err != context.Canceled {
									f.add("C03", "broadcast:error-changed", "a cancelled Wait returned %v", err)
								}
								// (a predicate evaluation that is still pending somewhere shows up while the
								// other goroutines keep taking the lock)
								for i := 0; i < 50; i++ {
									runtime.Gosched()
								}
							}()
							continue
						}
						go func() {
							defer wwg.Done()
							sawTrue := false
							err := b.Wait(context.Background(), func(_ func(), _ func() <-chan struct{}) (bool, error) {
								sawTrue = counter >= k
								return sawTrue, nil
							})
							if err != nil || !sawTrue {
								f.add("C03", "broadcast:nil-without-true", "Wait(counter >= %d) returned %v with predicate true=%v", k, err, sawTrue)
							}
						}()
					}
				}
			})
			for int(asyncDone.Load()) < nAsync {
				runtime.Gosched() // asynchronous sections still pending
			}
			wwg.Wait() // a waiter that missed a broadcast hangs here: reported through the watchdog
			got := -1
			b.HoldLock(func(_ func(), _ func() <-chan struct{}) { verify(); got = counter })
			if got != total {
				f.add("C03", "broadcast:lost-update", "%d increments under the lock ended at %d", total, got)
			}
		})
}
