// Package lifox decides C12 (cqueue.AtomicLIFO, linkedlist.LinkedList).
package lifox

import (
	"encoding/json"
	"fmt"
	"runtime"
	"sort"
	"sync"
	"sync/atomic"
	"testing"
	"time"

	"github.com/anishathalye/porcupine"
	"github.com/aperturerobotics/util/cqueue"
	"github.com/aperturerobotics/util/linkedlist"
	"pgregory.net/rapid"
	"verif/harness/ev"
	"verif/harness/sched"
)

const P = "C12"

// Op is one call. Values are assigned at execution (unique, > 0).
type Op struct {
	K string `json:"k"` // push pushfront pop peek peektail isempty reset
}

// Case is a set of per-goroutine programs (E3) or a flat op list with a schedule (E1).
type Case struct {
	Init  int    `json:"init,omitempty"` // LinkedList: number of initial elements passed to the constructor
	List  bool   `json:"list"`
	Progs [][]Op `json:"progs"`
	Sched []byte `json:"sched,omitempty"`
}

func genOps(list bool, n int) *rapid.Generator[[]Op] {
	kinds := []string{"push", "push", "pop", "pop"}
	if list {
		kinds = []string{"push", "push", "pushfront", "pop", "pop", "peek", "peektail", "isempty", "reset"}
	}
	return rapid.SliceOfN(rapid.Custom(func(t *rapid.T) Op { return Op{K: rapid.SampledFrom(kinds).Draw(t, "k")} }), 1, n)
}

func genControlled(t *rapid.T) Case {
	c := Case{List: rapid.IntRange(0, 3).Draw(t, "list") == 0}
	if c.List {
		c.Init = rapid.IntRange(0, 3).Draw(t, "init")
	}
	g := rapid.IntRange(2, ev.Pick(4, 6)).Draw(t, "g")
	for i := 0; i < g; i++ {
		c.Progs = append(c.Progs, genOps(c.List, ev.Pick(6, 10)).Draw(t, "ops"))
	}
	c.Sched = sched.GenSchedule(t, ev.Pick(150, 400))
	return c
}

func genFree(t *rapid.T) Case {
	c := Case{List: rapid.IntRange(0, 2).Draw(t, "list") == 0}
	if c.List {
		c.Init = rapid.IntRange(0, 3).Draw(t, "init")
	}
	g := rapid.IntRange(2, ev.Pick(4, 6)).Draw(t, "g")
	for i := 0; i < g; i++ {
		c.Progs = append(c.Progs, rapid.SliceOfN(rapid.Custom(func(t *rapid.T) Op {
			kinds := []string{"push", "push", "pop", "pop"}
			if c.List {
				kinds = []string{"push", "push", "pushfront", "pop", "pop", "peek", "peektail", "isempty", "reset"}
			}
			return Op{K: rapid.SampledFrom(kinds).Draw(t, "k")}
		}), 4, ev.Pick(12, 20)).Draw(t, "ops"))
	}
	return c
}

// ---- history + porcupine model ----

type input struct {
	K string
	V int
}

type output struct {
	V  int
	Ok bool
}

type histOp struct {
	client   int
	in       input
	out      output
	call, rt int64
}

func copyState(s []int) []int { return append([]int(nil), s...) }

// model: LIFO state is a stack (top = last); list state is a deque (head = index 0).
func initVals(n int) []int {
	out := make([]int, n)
	for i := range out {
		out[i] = 100000 + i
	}
	return out
}

func model(list bool, init int) porcupine.Model {
	return porcupine.Model{
		Init: func() interface{} { return initVals(init) },
		Step: func(state, in, out interface{}) (bool, interface{}) {
			s := state.([]int)
			i := in.(input)
			o := out.(output)
			if !list {
				switch i.K {
				case "push":
					return true, append(copyState(s), i.V)
				case "pop":
					if len(s) == 0 {
						return o.V == 0, s
					}
					return o.V == s[len(s)-1], copyState(s[:len(s)-1])
				}
				return false, s
			}
			switch i.K {
			case "push":
				return true, append(copyState(s), i.V)
			case "pushfront":
				return true, append([]int{i.V}, s...)
			case "pop":
				if len(s) == 0 {
					return !o.Ok, s
				}
				return o.Ok && o.V == s[0], copyState(s[1:])
			case "peek":
				if len(s) == 0 {
					return !o.Ok, s
				}
				return o.Ok && o.V == s[0], s
			case "peektail":
				if len(s) == 0 {
					return !o.Ok, s
				}
				return o.Ok && o.V == s[len(s)-1], s
			case "isempty":
				return o.Ok == (len(s) == 0), s
			case "reset":
				return true, []int{}
			}
			return false, s
		},
		Equal: func(a, b interface{}) bool {
			x, y := a.([]int), b.([]int)
			if len(x) != len(y) {
				return false
			}
			for i := range x {
				if x[i] != y[i] {
					return false
				}
			}
			return true
		},
		DescribeOperation: func(in, out interface{}) string {
			return fmt.Sprintf("%v -> %v", in, out)
		},
	}
}

type subject struct {
	list bool
	lifo cqueue.AtomicLIFO[int]
	ll   *linkedlist.LinkedList[int]
}

func newSubject(cs Case) *subject {
	return &subject{list: cs.List, ll: linkedlist.NewLinkedList(initVals(cs.Init)...)}
}

func (s *subject) do(k string, v int) output {
	if !s.list {
		if k == "push" {
			s.lifo.Push(v)
			return output{}
		}
		return output{V: s.lifo.Pop()}
	}
	switch k {
	case "push":
		s.ll.Push(v)
	case "pushfront":
		s.ll.PushFront(v)
	case "pop":
		x, ok := s.ll.Pop()
		return output{x, ok}
	case "peek":
		x, ok := s.ll.Peek()
		return output{x, ok}
	case "peektail":
		x, ok := s.ll.PeekTail()
		return output{x, ok}
	case "isempty":
		return output{Ok: s.ll.IsEmpty()}
	case "reset":
		s.ll.Reset()
	}
	return output{}
}

// verdictFor checks linearizability and conservation of a complete history.
func verdictFor(v *ev.Verdict, list bool, init int, hist []histOp, remaining []int) {
	ops := make([]porcupine.Operation, 0, len(hist))
	for _, h := range hist {
		ops = append(ops, porcupine.Operation{ClientId: h.client, Input: h.in, Call: h.call, Output: h.out, Return: h.rt})
	}
	res := porcupine.CheckOperationsTimeout(model(list, init), ops, 500*time.Millisecond)
	switch res {
	case porcupine.Illegal:
		sort.Slice(hist, func(i, j int) bool { return hist[i].call < hist[j].call })
		var desc []string
		for _, h := range hist {
			desc = append(desc, fmt.Sprintf("g%d:%s(%d)->(%d,%v)@[%d,%d]", h.client, h.in.K, h.in.V, h.out.V, h.out.Ok, h.call, h.rt))
		}
		if len(desc) > 60 {
			desc = desc[:60]
		}
		what := "last-in-first-out stack"
		if list {
			what = "double-ended queue"
		}
		v.Add(P, "lifo:not-linearizable", "the history is not equivalent to any sequential %s history that respects real-time order: %v", what, desc)
		return
	case porcupine.Unknown:
		v.Class("linearizability-check-timed-out")
	}
	// conservation (no Reset in the history): pushed = popped + remaining, nothing twice
	pushed := map[int]int{}
	for _, x := range initVals(init) {
		pushed[x]++
	}
	got := map[int]int{}
	hasReset := false
	for _, h := range hist {
		switch h.in.K {
		case "push", "pushfront":
			pushed[h.in.V]++
		case "pop":
			if h.out.V != 0 && (h.out.Ok || !list) {
				got[h.out.V]++
			}
		case "reset":
			hasReset = true
		}
	}
	for _, x := range remaining {
		got[x]++
	}
	for x, n := range got {
		if n > 1 {
			v.Add(P, "lifo:duplicate", "value %d was returned %d times (popped or left in the structure)", x, n)
			return
		}
		if pushed[x] == 0 {
			v.Add(P, "lifo:invented", "value %d was returned but never pushed", x)
			return
		}
	}
	if !hasReset {
		for x := range pushed {
			if got[x] == 0 {
				v.Add(P, "lifo:lost", "value %d was pushed but neither popped nor found when draining (%d pushed, %d accounted for)", x, len(pushed), len(got))
				return
			}
		}
	}
}

func drain(s *subject) []int {
	var rem []int
	for i := 0; i < 100000; i++ {
		if !s.list {
			x := s.lifo.Pop()
			if x == 0 {
				break
			}
			rem = append(rem, x)
		} else {
			x, ok := s.ll.Pop()
			if !ok {
				break
			}
			rem = append(rem, x)
		}
	}
	return rem
}

// ---- E1: controlled interleaving of the load / compare-and-swap steps ----

func runControlled(t *testing.T, cs Case) *ev.Verdict {
	v := &ev.Verdict{}
	canon, _ := json.Marshal(struct {
		L bool
		P [][]Op
	}{cs.List, cs.Progs})
	v.Canon = string(canon)
	var finalHist []histOp
	var finalRem []int
	c, berr := sched.Run(t, []string{"lifo.push.cas", "lifo.pop.cas"}, cs.Sched, func(c *sched.Ctl) {
		s := newSubject(cs)
		var clock atomic.Int64
		var hm sync.Mutex
		var hist []histOp
		nextVal := 0
		casPoints := map[string]int{}
		retried := false
		c.OnGrant(func(tk *sched.Ticket) {
			clock.Add(1)
			if tk.Point == "lifo.push.cas" || tk.Point == "lifo.pop.cas" {
				casPoints[tk.Label]++
			}
		})
		for g, prog := range cs.Progs {
			label := fmt.Sprintf("g%d", g)
			vals := make([]int, len(prog))
			for i, op := range prog {
				if op.K == "push" || op.K == "pushfront" {
					nextVal++
					vals[i] = nextVal
				}
			}
			c.Go(label, func() {
				for i, op := range prog {
					call := clock.Add(1)
					out := s.do(op.K, vals[i])
					rt := clock.Add(1)
					hm.Lock()
					hist = append(hist, histOp{client: g, in: input{op.K, vals[i]}, out: out, call: call, rt: rt})
					hm.Unlock()
				}
			})
			v.OpsTotal += len(prog)
			v.OpsEffective += len(prog)
		}
		c.Settle(true)
		if p := c.Panics(); p != "" {
			v.Add(P, "lifo:panic", "operation panicked: %s", p)
			return
		}
		if c.StepLimit {
			// a lock-free structure with <= 60 operations cannot need 20000 steps: some retry loop never ends
			v.Add(P, "lifo:livelock", "operations %v keep retrying their compare-and-swap without ever completing (step budget of %d grants exceeded)", c.Blocked(), c.MaxSteps)
			c.Abandon = true
			return
		}
		if bl := c.Blocked(); len(bl) > 0 {
			v.Add(P, "lifo:stuck", "goroutines %v never finished their operations", bl)
			return
		}
		nops := 0
		for _, p := range cs.Progs {
			nops += len(p)
		}
		ncas := 0
		for _, n := range casPoints {
			ncas += n
		}
		// every LIFO op passes its CAS point once; more passes than ops means a CAS failed and was retried
		lifoOps := 0
		if !cs.List {
			for _, p := range cs.Progs {
				for _, op := range p {
					_ = op
					lifoOps++
				}
			}
			if ncas > lifoOps-countEmptyPops(hist) {
				retried = true
			}
		}
		// the linearizability check runs outside the bubble (porcupine uses real timers and goroutines)
		finalHist, finalRem = hist, drain(s)
		if retried || (cs.List && len(cs.Progs) >= 2) {
			v.SetNT(P)
		}
		if retried {
			v.Class("cas-failed-and-retried")
		}
		if cs.List {
			v.Class("linkedlist")
		}
	})
	v.Trace = c.Trace()
	if c.Prio {
		v.Class("priority-schedule")
	}
	if c.Mix {
		v.Class("uniform-decisions")
	}
	if finalHist != nil && len(v.Viol) == 0 {
		verdictFor(v, cs.List, cs.Init, finalHist, finalRem)
	}
	if berr != "" && len(v.Viol) == 0 {
		v.Add(P, "lifo:leak", "bubble ended with blocked goroutines: %s", berr)
	}
	return v
}

func countEmptyPops(hist []histOp) int {
	n := 0
	for _, h := range hist {
		if h.in.K == "pop" && h.out.V == 0 {
			n++
		}
	}
	return n
}

// ---- E3: real parallelism ----

func runFree(t *testing.T, cs Case) *ev.Verdict {
	v := &ev.Verdict{}
	sched.Guard(func() { runFreeInner(cs, v) })
	return v
}

func runFreeInner(cs Case, v *ev.Verdict) {
	s := newSubject(cs)
	var clock atomic.Int64
	var wg sync.WaitGroup
	hists := make([][]histOp, len(cs.Progs))
	nextVal := 0
	var start atomic.Bool
	var ready atomic.Int32
	sched.SetFreeRunning(true) // hook points yield at random: widens the load / CAS windows
	defer sched.SetFreeRunning(false)
	for g, prog := range cs.Progs {
		vals := make([]int, len(prog))
		for i, op := range prog {
			if op.K == "push" || op.K == "pushfront" {
				nextVal++
				vals[i] = nextVal
			}
		}
		wg.Add(1)
		go func() {
			defer wg.Done()
			ready.Add(1)
			for !start.Load() {
			}
			for i, op := range prog {
				call := clock.Add(1)
				out := s.do(op.K, vals[i])
				rt := clock.Add(1)
				hists[g] = append(hists[g], histOp{client: g, in: input{op.K, vals[i]}, out: out, call: call, rt: rt})
			}
		}()
		v.OpsTotal += len(prog)
		v.OpsEffective += len(prog)
	}
	for int(ready.Load()) < len(cs.Progs) {
		runtime.Gosched()
	}
	start.Store(true)
	wg.Wait()
	var hist []histOp
	overlap := false
	for _, h := range hists {
		hist = append(hist, h...)
	}
	for i := range hist {
		for j := range hist {
			if hist[i].client != hist[j].client && hist[i].call < hist[j].rt && hist[j].call < hist[i].rt {
				overlap = true
			}
		}
	}
	verdictFor(v, cs.List, cs.Init, hist, drain(s))
	if overlap {
		v.SetNT(P)
		v.Class("calls-overlapped-in-real-time")
	}
	if cs.List {
		v.Class("linkedlist")
	}
	var tr []string
	sort.Slice(hist, func(i, j int) bool { return hist[i].call < hist[j].call })
	for i, h := range hist {
		if i >= 200 {
			break
		}
		tr = append(tr, fmt.Sprintf("g%d:%s(%d)->%d/%v@%d-%d", h.client, h.in.K, h.in.V, h.out.V, h.out.Ok, h.call, h.rt))
	}
	v.Trace = tr
}

// BurstCase: many pushers hammer one AtomicLIFO while a single goroutine pops.
type BurstCase struct {
	Pushers int   `json:"pushers"`
	Bursts  []int `json:"bursts"` // burst sizes every pusher goes through (pushes back to back)
}

func genBurst(t *rapid.T) BurstCase {
	return BurstCase{
		Pushers: rapid.IntRange(2, 8).Draw(t, "pushers"),
		Bursts:  rapid.SliceOfN(rapid.SampledFrom([]int{1, 2, 5, 20, 100}), 1, 12).Draw(t, "bursts"),
	}
}

// runBurst checks the "Pop returns the zero value exactly when the stack is empty"
// clause under real parallelism without a linearizability search: with a single
// popping goroutine, every successful Pop so far is its own and complete, so at the
// moment one of its Pops finds the stack empty exactly that many pushes have taken
// effect; every Push that had returned before the Pop started is among them.
func runBurst(t *testing.T, cs BurstCase) *ev.Verdict {
	v := &ev.Verdict{}
	cj, _ := json.Marshal(cs)
	v.Canon = string(cj)
	sched.Guard(func() {
		var q cqueue.AtomicLIFO[int]
		done := make([]atomic.Int64, cs.Pushers) // per pusher: how many of its pushes have returned
		var wg sync.WaitGroup
		var start, stop atomic.Bool
		total := 0
		for _, b := range cs.Bursts {
			total += b
		}
		total *= cs.Pushers
		for g := 0; g < cs.Pushers; g++ {
			wg.Add(1)
			go func() {
				defer wg.Done()
				for !start.Load() {
				}
				val := g*1000000 + 1
				for _, b := range cs.Bursts {
					for i := 0; i < b; i++ {
						q.Push(val)
						done[g].Add(1)
						val++
					}
					runtime.Gosched()
				}
			}()
		}
		seen := map[int]bool{}
		var popErr string
		popperDone := make(chan struct{})
		go func() {
			defer close(popperDone)
			per := total / cs.Pushers
			popped := make([][]bool, cs.Pushers) // popped[g][i]: the (i+1)-th value of pusher g has been popped
			low := make([]int, cs.Pushers)       // per pusher: index of its first value not yet popped
			before := make([]int64, cs.Pushers)
			for g := range popped {
				popped[g] = make([]bool, per)
			}
			for !start.Load() {
			}
			for {
				finished := stop.Load()
				for g := range before {
					before[g] = done[g].Load()
				}
				x := q.Pop()
				if x == 0 {
					// the stack was empty at some moment of this call: every value whose Push had
					// returned before the call started must have been popped by then, and this
					// goroutine is the only one that pops
					for g := range before {
						if int64(low[g]) < before[g] && popErr == "" {
							popErr = fmt.Sprintf("Pop returned the zero value although value #%d of pusher %d, whose Push had returned before this Pop started (%d of its pushes had), has never been popped", low[g]+1, g, before[g])
						}
					}
					if finished {
						return
					}
					continue
				}
				if seen[x] && popErr == "" {
					popErr = fmt.Sprintf("value %d was popped twice", x)
				}
				seen[x] = true
				g, i := x/1000000, x%1000000-1
				if g >= 0 && g < cs.Pushers && i >= 0 && i < per {
					popped[g][i] = true
					for low[g] < per && popped[g][low[g]] {
						low[g]++
					}
				} else if popErr == "" {
					popErr = fmt.Sprintf("value %d was popped but never pushed", x)
				}
			}
		}()
		start.Store(true)
		wg.Wait()
		stop.Store(true)
		<-popperDone
		if popErr != "" {
			v.Add(P, "lifo:empty-pop-on-non-empty-stack", "%s (%d pushers, bursts %v)", popErr, cs.Pushers, cs.Bursts)
		} else if len(seen) != total {
			v.Add(P, "lifo:conservation", "%d values pushed, %d distinct values popped after the pushers finished and the stack was drained", total, len(seen))
		}
	})
	v.SetNT(P)
	v.Class("burst-pushers-single-popper")
	return v
}

func TestC12Burst(t *testing.T) {
	ev.Drive(t, ev.Runner[BurstCase]{
		Prop: P, ReplayRuns: 200,
		Rule: "2..8 goroutines push unique values into one AtomicLIFO in generated bursts (1..100 back to back) with real parallelism while a single goroutine pops until everything is drained; oracle: when a Pop returns the zero value every value whose Push had returned before that Pop started has been popped, no value twice or invented, all values popped in the end; non-trivial always (>= 2 pushers); distinct by case",
		Gen:  genBurst,
		Run:  runBurst,
	})
}

// runListBurst: pushers append unique increasing values to one LinkedList while a
// single goroutine pops; the list stays short, so pushes and pops keep meeting at the
// one-element boundary. Oracle without a linearizability search: Pop returns the values
// of each pusher in increasing order (the list is a FIFO for Push/Pop), nothing twice,
// nothing invented, and in the end everything that was pushed has been popped.
func runListBurst(t *testing.T, cs BurstCase) *ev.Verdict {
	v := &ev.Verdict{}
	cj, _ := json.Marshal(cs)
	v.Canon = string(cj)
	sched.Guard(func() {
		l := linkedlist.NewLinkedList[int]()
		var wg sync.WaitGroup
		var start, stop atomic.Bool
		per := 0
		for _, b := range cs.Bursts {
			per += b
		}
		for g := 0; g < cs.Pushers; g++ {
			wg.Add(1)
			go func() {
				defer wg.Done()
				for !start.Load() {
				}
				val := g*1000000 + 1
				for _, b := range cs.Bursts {
					for i := 0; i < b; i++ {
						l.Push(val)
						val++
					}
					runtime.Gosched()
				}
			}()
		}
		last := make([]int, cs.Pushers)
		popped := 0
		var popErr string
		popperDone := make(chan struct{})
		go func() {
			defer close(popperDone)
			for !start.Load() {
			}
			for {
				finished := stop.Load()
				x, ok := l.Pop()
				if !ok {
					if finished {
						return
					}
					continue
				}
				g, i := x/1000000, x%1000000
				switch {
				case g < 0 || g >= cs.Pushers || i < 1 || i > per:
					if popErr == "" {
						popErr = fmt.Sprintf("value %d was popped but never pushed", x)
					}
				case i <= last[g]:
					if popErr == "" {
						popErr = fmt.Sprintf("value #%d of pusher %d was popped after its value #%d (pushed later): not a FIFO, or popped twice", i, g, last[g])
					}
				default:
					last[g] = i
				}
				popped++
			}
		}()
		start.Store(true)
		wg.Wait()
		stop.Store(true)
		<-popperDone
		if popErr != "" {
			v.Add(P, "list:order", "%s (%d pushers, bursts %v)", popErr, cs.Pushers, cs.Bursts)
		} else if popped != per*cs.Pushers {
			v.Add(P, "list:conservation", "%d values pushed, %d popped after the pushers finished and the list was drained (an element was lost)", per*cs.Pushers, popped)
		}
	})
	v.SetNT(P)
	v.Class("list-burst-pushers-single-popper")
	return v
}

func TestC12ListBurst(t *testing.T) {
	ev.Drive(t, ev.Runner[BurstCase]{
		Prop: P, ReplayRuns: 200,
		Rule: "2..8 goroutines Push unique increasing values into one LinkedList in generated bursts with real parallelism while a single goroutine pops until everything is drained (the list keeps crossing the one-element boundary); oracle: each pusher's values come out in increasing order, nothing twice or invented, everything pushed is popped; non-trivial always; distinct by case",
		Gen:  genBurst,
		Run:  runListBurst,
	})
}

// PopRaceCase: several goroutines pop an almost empty stack at the same time, over and over.
type PopRaceCase struct {
	Poppers int `json:"poppers"`
	Elems   int `json:"elems"`  // values on the stack at the start of every round
	Rounds  int `json:"rounds"` // rounds per case
}

func genPopRace(t *rapid.T) PopRaceCase {
	return PopRaceCase{
		Poppers: rapid.IntRange(2, 12).Draw(t, "poppers"),
		Elems:   rapid.IntRange(1, 3).Draw(t, "elems"),
		Rounds:  rapid.SampledFrom([]int{200, 1000, 3000}).Draw(t, "rounds"),
	}
}

// runPopRace: the contended moment of a stack is the last element. Every round puts 1..3
// unique values on the stack and lets all poppers loose at once; each pops until it sees
// the zero value. Oracle per round: the values popped by all goroutines together are
// exactly the values pushed (none twice, none invented, none left), and no Pop panics.
func runPopRace(t *testing.T, cs PopRaceCase) *ev.Verdict {
	v := &ev.Verdict{}
	cj, _ := json.Marshal(cs)
	v.Canon = string(cj)
	sched.Guard(func() {
		var q cqueue.AtomicLIFO[int]
		var round atomic.Int64 // round the poppers may work on
		var finished atomic.Int64
		var failed atomic.Bool
		var mu sync.Mutex
		var msg, sig string
		fail := func(sg, f string, a ...any) {
			mu.Lock()
			if msg == "" {
				sig, msg = sg, fmt.Sprintf(f, a...)
			}
			mu.Unlock()
			failed.Store(true)
		}
		got := make([][]int, cs.Poppers)
		var wg sync.WaitGroup
		for g := 0; g < cs.Poppers; g++ {
			wg.Add(1)
			go func() {
				defer wg.Done()
				for r := int64(1); r <= int64(cs.Rounds); r++ {
					for spin := 0; round.Load() < r; spin++ {
						if failed.Load() {
							return
						}
						if spin > 4000 && spin&63 == 63 {
							runtime.Gosched() // oversubscribed machine: let the others run
						}
					}
					func() {
						defer func() {
							if p := recover(); p != nil {
								fail("lifo:pop-panic", "Pop panicked while %d goroutines pop a stack of %d: %v", cs.Poppers, cs.Elems, p)
							}
						}()
						for {
							x := q.Pop()
							if x == 0 {
								return
							}
							got[g] = append(got[g], x)
						}
					}()
					finished.Add(1)
				}
			}()
		}
		val := 1
		for r := int64(1); r <= int64(cs.Rounds) && !failed.Load(); r++ {
			first := val
			for i := 0; i < cs.Elems; i++ {
				q.Push(val)
				val++
			}
			round.Store(r)
			for spin := 0; finished.Load() < r*int64(cs.Poppers) && !failed.Load(); spin++ {
				if spin > 4000 && spin&63 == 63 {
					runtime.Gosched()
				}
			}
			if failed.Load() {
				break
			}
			// all poppers are between rounds: got is quiescent
			seen := map[int]bool{}
			for g := range got {
				for _, x := range got[g] {
					if x < first || x >= val {
						fail("lifo:conservation", "round %d: value %d was popped but is not one of this round's values %d..%d", r, x, first, val-1)
					} else if seen[x] {
						fail("lifo:conservation", "round %d: value %d was popped twice", r, x)
					}
					seen[x] = true
				}
				got[g] = got[g][:0]
			}
			if len(seen) != cs.Elems && !failed.Load() {
				fail("lifo:empty-pop-on-non-empty-stack", "round %d: %d values were pushed, every popper saw the zero value, but only %d values were popped", r, cs.Elems, len(seen))
			}
		}
		round.Store(int64(cs.Rounds) + 1)
		wg.Wait()
		if msg != "" {
			v.Add(P, sig, "%s", msg)
		}
	})
	v.SetNT(P)
	v.Class("poppers-race-for-last-element")
	return v
}

func TestC12PopRace(t *testing.T) {
	ev.Drive(t, ev.Runner[PopRaceCase]{
		Prop: P, ReplayRuns: 200,
		Rule: "200..3000 rounds per case: 1..3 unique values are pushed, then 2..12 goroutines pop in parallel until each sees the zero value; oracle per round: the popped values are exactly the pushed ones (none twice, invented or left behind) and no Pop panics; non-trivial always; distinct by case",
		Gen:  genPopRace,
		Run:  runPopRace,
	})
}

// ListEndsCase: one goroutine mutates one end of the story (only it pushes, or only it
// removes) and looks at both ends of the list in between; the other goroutine does the
// opposite mutation all the time.
type ListEndsCase struct {
	OnlyPusher bool `json:"onlypusher"` // the observer is the only pusher (else: the only remover)
	Front      bool `json:"front"`      // pushes go through PushFront
	Reset      bool `json:"reset"`      // the remover empties the list with Reset instead of Pop
	Rounds     int  `json:"rounds"`
}

func genListEnds(t *rapid.T) ListEndsCase {
	return ListEndsCase{
		OnlyPusher: rapid.Bool().Draw(t, "onlypusher"),
		Front:      rapid.Bool().Draw(t, "front"),
		Reset:      rapid.IntRange(0, 3).Draw(t, "reset") == 0,
		Rounds:     rapid.SampledFrom([]int{300, 2000, 8000}).Draw(t, "rounds"),
	}
}

// runListEnds checks consequences of linearizability that need no search, on the one
// transition where a list changes both of its ends: between empty and one element.
// If only the observer pushes, then once it has seen IsEmpty() = true the list stays
// empty until its own next push: Peek and PeekTail must find nothing. If only the
// observer removes, then once it has seen an element at either end the list stays
// non-empty until its own next removal: IsEmpty must be false and both ends must show
// an element.
func runListEnds(t *testing.T, cs ListEndsCase) *ev.Verdict {
	v := &ev.Verdict{}
	cj, _ := json.Marshal(cs)
	v.Canon = string(cj)
	sched.Guard(func() {
		var l linkedlist.LinkedList[int]
		var stop atomic.Bool
		var msg string
		push := func(x int) {
			if cs.Front {
				l.PushFront(x)
			} else {
				l.Push(x)
			}
		}
		remove := func() {
			if cs.Reset {
				l.Reset()
			} else {
				l.Pop()
			}
		}
		var wg sync.WaitGroup
		wg.Add(1)
		if cs.OnlyPusher {
			go func() { // the remover
				defer wg.Done()
				for spin := 0; !stop.Load(); spin++ {
					remove()
					if spin&255 == 255 {
						runtime.Gosched()
					}
				}
			}()
			for r := 1; r <= cs.Rounds && msg == ""; r++ {
				push(r)
				for spin := 0; msg == ""; spin++ {
					if l.IsEmpty() {
						// nobody else pushes: it stays empty until the next round
						if x, ok := l.PeekTail(); ok {
							msg = fmt.Sprintf("round %d: IsEmpty() = true, then PeekTail() = (%d, true) although nothing was pushed in between (the caller is the only pusher)", r, x)
						} else if x, ok := l.Peek(); ok {
							msg = fmt.Sprintf("round %d: IsEmpty() = true, then Peek() = (%d, true) although nothing was pushed in between (the caller is the only pusher)", r, x)
						}
						break
					}
					if spin&255 == 255 {
						runtime.Gosched()
					}
				}
			}
		} else {
			var pushed atomic.Int64
			go func() { // the pusher: keeps at most one element in the list
				defer wg.Done()
				for x := 1; x <= cs.Rounds && !stop.Load(); x++ {
					push(x)
					pushed.Store(int64(x))
					for spin := 0; !l.IsEmpty() && !stop.Load(); spin++ {
						if spin&255 == 255 {
							runtime.Gosched()
						}
					}
				}
			}()
			for r := 1; r <= cs.Rounds && msg == ""; r++ {
				// wait until either end shows the element, then look at the rest
				for spin := 0; msg == ""; spin++ {
					_, tailOK := l.PeekTail()
					_, headOK := false, false
					if !tailOK {
						_, headOK = l.Peek()
					}
					if tailOK || headOK {
						// nobody else removes: it stays non-empty until our own removal
						if l.IsEmpty() {
							msg = fmt.Sprintf("round %d: an end of the list showed an element, then IsEmpty() = true although nothing was removed in between (the caller is the only remover)", r)
						} else if _, ok := l.Peek(); !ok {
							msg = fmt.Sprintf("round %d: the list is not empty, yet Peek() found nothing although nothing was removed in between", r)
						} else if _, ok := l.PeekTail(); !ok {
							msg = fmt.Sprintf("round %d: the list is not empty, yet PeekTail() found nothing although nothing was removed in between", r)
						}
						break
					}
					if spin&255 == 255 {
						runtime.Gosched()
					}
				}
				if msg == "" {
					if cs.Reset {
						l.Reset()
					} else if x, ok := l.Pop(); !ok || x != r {
						msg = fmt.Sprintf("round %d: Pop() = (%d, %v), the only element in the list is %d", r, x, ok, r)
					}
				}
			}
		}
		stop.Store(true)
		wg.Wait()
		if msg != "" {
			v.Add(P, "list:ends-disagree", "%s", msg)
		}
	})
	v.SetNT(P)
	v.Class("list-empty-transition-observed-from-both-ends")
	return v
}

func TestC12ListEnds(t *testing.T) {
	ev.Drive(t, ev.Runner[ListEndsCase]{
		Prop: P, ReplayRuns: 100,
		Rule: "one LinkedList that oscillates between empty and one element for 300..8000 rounds: one goroutine is the only pusher (or the only remover) and looks at IsEmpty/Peek/PeekTail between its own mutations while the other goroutine removes (Pop or Reset) or pushes (Push or PushFront) all the time; oracle (consequences of linearizability that need no search): after the only pusher saw IsEmpty() = true neither end shows an element before its next push, after the only remover saw an element at one end IsEmpty() is false and both ends show an element before its next removal, and Pop returns the one element; non-trivial always; distinct by case",
		Gen:  genListEnds,
		Run:  runListEnds,
	})
}

func TestC12Controlled(t *testing.T) {
	ev.Drive(t, ev.Runner[Case]{
		Prop: P,
		Rule: "2..6 goroutines x 1..10 ops on one AtomicLIFO (Push of unique values, Pop) with every goroutine parked between its top load and its compare-and-swap, so CAS failures are generated; (1/4: LinkedList ops, atomic under the controller); oracle: porcupine linearizability against the sequential stack/deque model with controller-step stamps + conservation after draining; non-trivial iff a CAS failed and was retried (more CAS-point passes than operations); distinct by hash(programs, realised grant trace)",
		Gen:  genControlled,
		Run:  runControlled,
	})
}

func TestC12Free(t *testing.T) {
	ev.Drive(t, ev.Runner[Case]{
		Prop: P, ReplayRuns: 200,
		Rule: "2..8 goroutines x 1..24 ops run with real parallelism (AtomicLIFO 2/3, LinkedList 1/3 incl. PushFront/Peek/PeekTail/IsEmpty/Reset); invocation/response stamps from one atomic counter; oracle: porcupine + conservation; non-trivial iff calls of different goroutines overlapped in real time; distinct by hash(programs, realised history)",
		Gen:  genFree,
		Run:  runFree,
	})
}
