package sched

import "testing"

func TestGoid(t *testing.T) {
	if goidOff == 0 {
		t.Fatalf("goid offset not found")
	}
	done := make(chan bool)
	for i := 0; i < 100; i++ {
		go func() { done <- Goid() == slowGoid() }()
		if !<-done {
			t.Fatal("mismatch")
		}
	}
	t.Logf("goid offset %d", goidOff)
}

func BenchmarkGoid(b *testing.B) {
	for i := 0; i < b.N; i++ {
		Goid()
	}
}
