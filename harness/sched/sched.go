// Package sched is the controlled scheduler (engine E1/E2 of DESIGN.md): a
// synctest bubble whose goroutines park at verifhook schedule points and are
// released one at a time by a controller following a generated decision
// stream.
package sched

import (
	"fmt"
	"os"
	"runtime"
	"sort"
	"strings"
	"sync"
	"sync/atomic"
	"testing"
	"testing/synctest"
	"time"

	"github.com/aperturerobotics/util/verifhook"
)

// Ticket is a goroutine parked at a schedule point.
type Ticket struct {
	Label string // label of the goroutine ("" for library goroutines)
	Point string
	Obj   any
	goid  uint64
	seq   int
	ch    chan struct{}
}

// Goid returns the id of the parked goroutine.
func (t *Ticket) Goid() uint64 { return t.goid }

// Key returns the stable sort key / trace name of the ticket.
func (t *Ticket) Key() string {
	l := t.Label
	if l == "" {
		l = "~"
	}
	return l + "@" + t.Point
}

// Op is a harness-spawned operation goroutine.
type Op struct {
	Label  string
	done   atomic.Bool
	panicV atomic.Pointer[string]
}

// Done reports whether the operation's function has returned.
func (o *Op) Done() bool { return o.done.Load() }

// Panic returns the recovered panic of the op, if any.
func (o *Op) Panic() string {
	if p := o.panicV.Load(); p != nil {
		return *p
	}
	return ""
}

// Ctl is the controller of one case.
type Ctl struct {
	T *testing.T

	mu       sync.Mutex
	tickets  []*Ticket
	seq      int
	pass     bool
	parkable map[string]bool
	labels   map[uint64]string
	depth    map[uint64]int
	ctlG     uint64

	sched []byte
	si    int

	trace    []string
	steps    int
	MaxSteps int
	// DeferAt: a decision byte >= DeferAt leaves all tickets parked (Settle(false)).
	DeferAt int
	// Priority mode (PCT-like): every goroutine label gets a priority from the
	// decision stream when it is first seen and the highest-priority parked ticket
	// is always granted; at a few generated step numbers the goroutine just chosen
	// drops below everybody else. The driver (the harness issuing operations) draws
	// a priority for every inter-operation window: tickets below it stay parked.
	// This produces the schedules a random walk almost never does: one goroutine
	// delayed across many operations of the others.
	Prio bool
	// Mix: non-zero decision bytes are passed through a hash before use. rapid draws
	// bytes with a strong bias towards small values (measured: 38 % below 8, 13 % at
	// or above 192), which makes "grant the first tickets in label order" far more
	// likely than any other choice; hashing restores a uniform choice while a zero
	// byte still means "first ticket", so shrinking keeps its target.
	Mix     bool
	prio    map[string]int
	change  map[int]bool
	demoted int
	// StepLimit is set when MaxSteps was exceeded.
	StepLimit bool

	// Abandon: do not release parked goroutines at the end of the case.
	Abandon bool

	// AfterWait runs on the controller after every quiescence wait (before invariants).
	AfterWait func()

	onGrant    func(t *Ticket)
	invariants []func() string
	// Fail is the first invariant failure ("" if none).
	Fail string

	ops []*Op
}

var cur atomic.Pointer[Ctl]

// FreeRunning selects the E3 handler: random Gosched at points, no parking.
var freeRunning atomic.Bool

func handler(kind verifhook.Kind, name string, obj any) {
	c := cur.Load()
	if c == nil {
		if kind == verifhook.KindPoint && freeRunning.Load() {
			// cheap per-call pseudo random without synchronisation between goroutines
			// (an atomic add on a private counter creates no happens-before edge that
			// matters: the race detector treats it as a release/acquire on this
			// address only between goroutines that both touch it; to avoid hiding
			// races we do not use shared state here at all).
			if fastrand()&3 == 0 {
				runtime.Gosched()
			}
		}
		return
	}
	g := Goid()
	switch kind {
	case verifhook.KindEnter:
		c.mu.Lock()
		c.depth[g]++
		c.mu.Unlock()
	case verifhook.KindLeave:
		c.mu.Lock()
		if c.depth[g] <= 1 {
			delete(c.depth, g)
		} else {
			c.depth[g]--
		}
		c.mu.Unlock()
	case verifhook.KindPoint:
		c.park(g, name, obj)
	}
}

func (c *Ctl) park(g uint64, name string, obj any) {
	c.mu.Lock()
	if c.pass || g == c.ctlG || c.depth[g] > 0 || !(c.parkable[name] || strings.HasPrefix(name, "h.")) {
		c.mu.Unlock()
		return
	}
	c.seq++
	t := &Ticket{Label: c.labels[g], Point: name, Obj: obj, goid: g, seq: c.seq, ch: make(chan struct{})}
	c.tickets = append(c.tickets, t)
	c.mu.Unlock()
	<-t.ch
}

func init() {
	verifhook.SetHandler(handler)
}

// SetFreeRunning switches the global handler to the free-running (E3) mode.
func SetFreeRunning(on bool) { freeRunning.Store(on) }

// hang watchdog state (outside any bubble)
var (
	wdOnce    sync.Once
	wdStart   atomic.Int64 // unix nanos of the running case start, 0 = idle
	wdOnHang  atomic.Pointer[func()]
	wdTimeout = 30 * time.Second
	wdFree    atomic.Bool // the running case is free-running (Guard)
)

func watchdog() {
	for {
		time.Sleep(500 * time.Millisecond)
		st := wdStart.Load()
		limit := wdTimeout
		if wdFree.Load() && limit < 120*time.Second {
			// real parallelism on a possibly overloaded machine: a generous wall-clock limit
			limit = 120 * time.Second
		}
		if st != 0 && time.Since(time.Unix(0, st)) > limit {
			if f := wdOnHang.Load(); f != nil {
				(*f)()
			}
			buf := make([]byte, 1<<20)
			n := runtime.Stack(buf, true)
			fmt.Fprintf(os.Stderr, "\nHANG: case did not reach quiescence within %v\n%s\n", limit, buf[:n])
			os.Exit(3)
		}
	}
}

// Guard runs f (a free-running case, outside any bubble) under the hang watchdog.
func Guard(f func()) {
	wdOnce.Do(func() { go watchdog() })
	wdFree.Store(true)
	wdStart.Store(time.Now().UnixNano())
	defer func() { wdStart.Store(0); wdFree.Store(false) }()
	f()
}

// GuardSeq runs f (a sequential case without goroutines of its own) under the hang watchdog
// with the strict limit: a call that never returns is a spin or a deadlock, whatever the load.
func GuardSeq(f func()) {
	wdOnce.Do(func() { go watchdog() })
	wdStart.Store(time.Now().UnixNano())
	defer wdStart.Store(0)
	f()
}

// SetOnHang registers a function called by the watchdog before it exits the
// process (used to save the current case as a replay file).
func SetOnHang(f func()) { wdOnHang.Store(&f) }

// SetHangTimeout overrides the watchdog limit.
func SetHangTimeout(d time.Duration) { wdTimeout = d }

// Run executes body inside a synctest bubble under the controller.
// parkable lists the schedule-point names that may park; sched is the decision
// stream. It returns the bubble failure (leak / panic on the root) as a string.
func Run(t *testing.T, parkable []string, schedule []byte, body func(c *Ctl)) (c *Ctl, bubbleErr string) {
	wdOnce.Do(func() { go watchdog() })
	c = &Ctl{
		T:        t,
		parkable: map[string]bool{"op.start": true},
		labels:   map[uint64]string{},
		depth:    map[uint64]int{},
		sched:    schedule,
		MaxSteps: 20000,
		DeferAt:  192,
	}
	if len(schedule) > 0 {
		// the first schedule byte selects how eager the case is to overlap operations
		c.DeferAt = []int{192, 64, 128, 224}[int(schedule[0])&3]
		c.sched = schedule[1:]
		c.Mix = schedule[0]&0x20 != 0
		if (int(schedule[0])>>2)&3 == 3 {
			c.Prio = true
			c.prio = map[string]int{}
			c.change = map[int]bool{}
			for i := 0; i < 4; i++ {
				// change points: two within the first 64 grants, two within the first 256
				n := c.next()
				if i < 2 {
					n &= 63
				}
				c.change[1+n] = true
			}
		}
	}
	for _, p := range parkable {
		c.parkable[p] = true
	}
	wdStart.Store(time.Now().UnixNano())
	defer wdStart.Store(0)
	func() {
		defer func() {
			cur.Store(nil)
			if r := recover(); r != nil {
				bubbleErr = fmt.Sprint(r)
			}
		}()
		synctest.Test(t, func(t *testing.T) {
			c.ctlG = Goid()
			cur.Store(c)
			body(c)
			// normally leave in pass-through with nothing parked; an abandoned case
			// (a library mutex was left locked by a panic) keeps everything parked so
			// that the bubble ends with a recoverable "blocked goroutines" panic
			if !c.Abandon {
				c.PassThrough()
			}
		})
	}()
	return c, bubbleErr
}

// Go starts an operation goroutine that begins parked at "op.start".
func (c *Ctl) Go(label string, f func()) *Op {
	op := &Op{Label: label}
	c.ops = append(c.ops, op)
	go func() {
		g := Goid()
		c.mu.Lock()
		c.labels[g] = label
		c.mu.Unlock()
		defer func() {
			if r := recover(); r != nil {
				buf := make([]byte, 4096)
				n := runtime.Stack(buf, false)
				s := fmt.Sprintf("%v\n%s", r, buf[:n])
				op.panicV.Store(&s)
			}
			c.mu.Lock()
			delete(c.labels, g)
			delete(c.depth, g)
			c.mu.Unlock()
			op.done.Store(true)
		}()
		c.park(g, "op.start", nil)
		f()
	}()
	return op
}

// Adopt gives the calling (library-spawned) goroutine a stable label.
func (c *Ctl) Adopt(label string) {
	g := Goid()
	c.mu.Lock()
	if _, ok := c.labels[g]; !ok {
		c.labels[g] = label
	}
	c.mu.Unlock()
}

// LabelGoid names a (library-spawned) goroutine by id; parked tickets of that
// goroutine are relabelled too.
func (c *Ctl) LabelGoid(g uint64, label string) {
	c.mu.Lock()
	c.labels[g] = label
	for _, t := range c.tickets {
		if t.goid == g {
			t.Label = label
		}
	}
	c.mu.Unlock()
}

// LabelOfCaller returns the label of the calling goroutine ("" if none).
func (c *Ctl) LabelOfCaller() string {
	g := Goid()
	c.mu.Lock()
	defer c.mu.Unlock()
	return c.labels[g]
}

// Unadopt removes the label of the calling goroutine.
func (c *Ctl) Unadopt() {
	g := Goid()
	c.mu.Lock()
	delete(c.labels, g)
	c.mu.Unlock()
}

// Direct runs f on the controller goroutine (which never parks).
func (c *Ctl) Direct(f func()) { f() }

// OnGrant registers a callback invoked on the controller right before a ticket is released.
func (c *Ctl) OnGrant(f func(t *Ticket)) { c.onGrant = f }

// Invariant registers a step invariant; it returns "" when it holds.
func (c *Ctl) Invariant(f func() string) { c.invariants = append(c.invariants, f) }

// Wait waits for quiescence and evaluates the step invariants.
func (c *Ctl) Wait() {
	synctest.Wait()
	if c.AfterWait != nil {
		c.AfterWait()
	}
	if c.Fail == "" {
		for _, inv := range c.invariants {
			if m := inv(); m != "" {
				c.Fail = m
				break
			}
		}
	}
}

// Pending returns the parked tickets in stable order.
func (c *Ctl) Pending() []*Ticket {
	c.mu.Lock()
	p := append([]*Ticket(nil), c.tickets...)
	c.mu.Unlock()
	sort.SliceStable(p, func(i, j int) bool {
		a, b := p[i], p[j]
		if (a.Label == "") != (b.Label == "") {
			return a.Label != ""
		}
		if a.Label != b.Label {
			return a.Label < b.Label
		}
		if a.Label == "" && a.goid != b.goid {
			// library goroutines: creation order
			return a.goid < b.goid
		}
		if a.Point != b.Point {
			return a.Point < b.Point
		}
		return a.seq < b.seq
	})
	return p
}

// prioOf returns the (lazily drawn) priority of a ticket's goroutine.
func (c *Ctl) prioOf(t *Ticket) int {
	k := t.Label
	if k == "" {
		k = fmt.Sprintf("g%d", t.goid)
	}
	pr, ok := c.prio[k]
	if !ok {
		pr = 1 + c.next() // 1..256; demoted goroutines go to <= 0
		c.prio[k] = pr
	}
	return pr
}

// pickPrio returns the highest-priority pending ticket (first in stable order on ties).
func (c *Ctl) pickPrio(p []*Ticket) (*Ticket, int) {
	var best *Ticket
	bp := 0
	for _, t := range p {
		if pr := c.prioOf(t); best == nil || pr > bp {
			best, bp = t, pr
		}
	}
	return best, bp
}

// grantPrio grants t and applies a change point if one is due.
func (c *Ctl) grantPrio(t *Ticket) {
	if c.change[c.steps+1] {
		k := t.Label
		if k == "" {
			k = fmt.Sprintf("g%d", t.goid)
		}
		c.demoted--
		c.prio[k] = c.demoted
	}
	c.Grant(t)
}

func (c *Ctl) next() int {
	if c.si < len(c.sched) {
		d := c.sched[c.si]
		c.si++
		if c.Mix && d != 0 {
			x := uint64(d)<<32 | uint64(c.si)
			x ^= x >> 30
			x *= 0xbf58476d1ce4e5b9
			x ^= x >> 27
			x *= 0x94d049bb133111eb
			x ^= x >> 31
			return int(x & 0xff)
		}
		return int(d)
	}
	return 0
}

// DecisionsUsed returns how many schedule bytes were consumed.
func (c *Ctl) DecisionsUsed() int { return c.si }

// Grant releases one ticket.
func (c *Ctl) Grant(t *Ticket) {
	c.mu.Lock()
	for i, x := range c.tickets {
		if x == t {
			c.tickets = append(c.tickets[:i], c.tickets[i+1:]...)
			break
		}
	}
	c.mu.Unlock()
	c.steps++
	if len(c.trace) < 4000 {
		c.trace = append(c.trace, t.Key())
	}
	if c.onGrant != nil {
		c.onGrant(t)
	}
	close(t.ch)
}

// Settle grants tickets until none is left (full) or, when !full, until the
// decision stream says "leave the rest parked and go on".
// It returns true when the system is fully quiescent (no ticket parked).
func (c *Ctl) Settle(full bool) bool {
	drv := -1 << 30
	if c.Prio && !full {
		// the driver's priority for this window: tickets below it stay parked
		drv = c.next()
	}
	for {
		c.Wait()
		p := c.Pending()
		if len(p) == 0 {
			return true
		}
		if c.steps >= c.MaxSteps {
			c.StepLimit = true
			return false
		}
		// decision byte: >= 192 means "leave everything parked and go on with
		// the next operation" (only when !full); otherwise it selects a ticket.
		// 0 always selects the first ticket, so shrinking drives the schedule
		// towards a sequential run.
		if c.Prio {
			t, pr := c.pickPrio(p)
			if !full && pr < drv {
				return false
			}
			c.grantPrio(t)
			continue
		}
		d := c.next()
		if !full && d >= c.DeferAt {
			return false
		}
		c.Grant(p[d%len(p)])
	}
}

// Step grants exactly one ticket chosen by the next decision byte.
// It returns false when nothing is parked (full quiescence) or the step limit was hit.
func (c *Ctl) Step() bool {
	c.Wait()
	p := c.Pending()
	if len(p) == 0 {
		return false
	}
	if c.steps >= c.MaxSteps {
		c.StepLimit = true
		return false
	}
	if c.Prio {
		t, _ := c.pickPrio(p)
		c.grantPrio(t)
		return true
	}
	c.Grant(p[c.next()%len(p)])
	return true
}

// Park parks the calling goroutine at a harness-defined point (name must start with "h.").
func (c *Ctl) Park(name string) { c.park(Goid(), name, nil) }

// GrantWhere grants, in stable order, every pending ticket matching f until
// none matches; other tickets stay parked.
func (c *Ctl) GrantWhere(f func(t *Ticket) bool) {
	for {
		c.Wait()
		var pick *Ticket
		for _, t := range c.Pending() {
			if f(t) {
				pick = t
				break
			}
		}
		if pick == nil || c.steps >= c.MaxSteps {
			return
		}
		c.Grant(pick)
	}
}

// Quiescent reports whether nothing is parked (call after Wait/Settle).
func (c *Ctl) Quiescent() bool {
	c.mu.Lock()
	defer c.mu.Unlock()
	return len(c.tickets) == 0
}

// Advance sleeps in virtual time and settles fully.
func (c *Ctl) Advance(d time.Duration, full bool) bool {
	c.Wait()
	time.Sleep(d)
	return c.Settle(full)
}

// PassThrough switches the handler to pass-through and releases all tickets.
func (c *Ctl) PassThrough() {
	c.mu.Lock()
	c.pass = true
	ts := c.tickets
	c.tickets = nil
	c.mu.Unlock()
	for _, t := range ts {
		close(t.ch)
	}
}

// Controlled switches back to controlled mode (after PassThrough).
func (c *Ctl) Controlled() {
	c.mu.Lock()
	c.pass = false
	c.mu.Unlock()
}

// Trace returns the realised grant sequence.
func (c *Ctl) Trace() []string { return c.trace }

// Steps returns the number of grants so far.
func (c *Ctl) Steps() int { return c.steps }

// Ops returns all op goroutines started so far.
func (c *Ctl) Ops() []*Op { return c.ops }

// Blocked returns the labels of ops that have not returned.
func (c *Ctl) Blocked() []string {
	var out []string
	for _, o := range c.ops {
		if !o.Done() {
			out = append(out, o.Label)
		}
	}
	return out
}

// Panics returns "label: panic" for every op that panicked.
func (c *Ctl) Panics() string {
	var sb strings.Builder
	for _, o := range c.ops {
		if p := o.Panic(); p != "" {
			fmt.Fprintf(&sb, "%s: %s\n", o.Label, p)
		}
	}
	return sb.String()
}
