package sched

import "pgregory.net/rapid"

// GenSchedule draws a decision stream of exactly n bytes. (A variable-length
// SliceOf would average ~5 elements under rapid's size bias, which leaves
// almost every case running sequentially; measured.) Shrinking drives the
// bytes towards 0 = "grant the first ticket".
func GenSchedule(t *rapid.T, n int) []byte {
	return rapid.SliceOfN(rapid.Byte(), n, n).Draw(t, "sched")
}
