package sched

import (
	"bytes"
	"runtime"
	"strconv"
	"unsafe"
)

func getg() uintptr

// goidOff is the byte offset of the goid field inside runtime.g, found at init
// by comparing against the id parsed from runtime.Stack (self-checking: if no
// unique offset is found the slow parse is used).
var goidOff uintptr

func slowGoid() uint64 {
	var buf [64]byte
	n := runtime.Stack(buf[:], false)
	// "goroutine 123 [running]:"
	b := buf[:n]
	b = bytes.TrimPrefix(b, []byte("goroutine "))
	i := bytes.IndexByte(b, ' ')
	if i < 0 {
		return 0
	}
	id, _ := strconv.ParseUint(string(b[:i]), 10, 64)
	return id
}

//go:nocheckptr
func candidates() map[uintptr]bool {
	id := slowGoid()
	g := getg()
	out := map[uintptr]bool{}
	for off := uintptr(0); off < 512; off += 8 {
		if *(*uint64)(unsafe.Pointer(g + off)) == id {
			out[off] = true
		}
	}
	return out
}

func init() {
	a := candidates()
	ch := make(chan map[uintptr]bool)
	for i := 0; i < 3; i++ {
		go func() { ch <- candidates() }()
		b := <-ch
		for k := range a {
			if !b[k] {
				delete(a, k)
			}
		}
	}
	if len(a) == 1 {
		for k := range a {
			goidOff = k
		}
	}
}

// Goid returns the id of the calling goroutine.
//
//go:nocheckptr
func Goid() uint64 {
	if goidOff == 0 {
		return slowGoid()
	}
	return *(*uint64)(unsafe.Pointer(getg() + goidOff))
}
