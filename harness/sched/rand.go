package sched

import "math/rand/v2"

// fastrand uses the runtime's per-thread generator: no shared state, hence no
// happens-before edges between the goroutines under test.
func fastrand() uint32 { return rand.Uint32() }
