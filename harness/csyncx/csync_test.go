// Package csyncx decides C01 and C02 (csync.Mutex / csync.RWMutex).
package csyncx

import (
	"context"
	"encoding/json"
	"fmt"
	"sync"
	"testing"

	"github.com/aperturerobotics/util/csync"
	"pgregory.net/rapid"
	"verif/harness/ev"
	"verif/harness/sched"
)

// Op is one generated operation.
type Op struct {
	K    string `json:"k"`           // lock try rel rel2 cancel llock lunlock probe
	W    bool   `json:"w,omitempty"` // write mode (RWMutex only)
	Pre  bool   `json:"pre,omitempty"`
	Pick int    `json:"pick,omitempty"`
}

// Case is a generated history plus schedule.
type Case struct {
	RW    bool   `json:"rw"`
	Ops   []Op   `json:"ops"`
	Sched []byte `json:"sched"`
}

func genCase(bias string) func(t *rapid.T) Case {
	return func(t *rapid.T) Case {
		var c Case
		c.RW = rapid.IntRange(0, 3).Draw(t, "rw") != 0
		maxOps := ev.Pick(16, 32)
		kinds := []string{"lock", "lock", "lock", "try", "rel", "rel", "rel2", "cancel", "llock", "lunlock", "probe"}
		if bias == "C02" {
			kinds = []string{"lock", "lock", "lock", "lock", "try", "rel", "cancel", "cancel", "probe", "probe", "rel2", "llock", "lunlock"}
		}
		genOp := rapid.Custom(func(t *rapid.T) Op {
			op := Op{K: rapid.SampledFrom(kinds).Draw(t, "k")}
			switch op.K {
			case "lock":
				op.W = rapid.IntRange(0, 2).Draw(t, "w") == 2
				op.Pre = rapid.IntRange(0, 9).Draw(t, "pre") == 9
			case "try", "llock", "lunlock":
				op.W = rapid.Bool().Draw(t, "w")
			case "rel", "rel2", "cancel":
				op.Pick = rapid.IntRange(0, 7).Draw(t, "pick")
			}
			return op
		})
		c.Ops = rapid.SliceOfN(genOp, 2, maxOps).Draw(t, "ops")
		if bias == "C02" && rapid.IntRange(0, 2).Draw(t, "barging") == 0 {
			// construction instead of rejection: a waiter is woken by a release while a
			// newcomer takes the lock and gives it back (the schedule decides whether the
			// woken waiter looks before, between or after the newcomer's two sections)
			w := rapid.Bool().Draw(t, "bargew")
			c.Ops = append([]Op{{K: "lock", W: true}, {K: "lock", W: w || !c.RW}, {K: "rel"}, {K: "try", W: true}, {K: "rel"}}, c.Ops...)
		}
		c.Sched = sched.GenSchedule(t, ev.Pick(120, 400))
		return c
	}
}

type acq struct {
	id        int
	kind      string // lock try llock
	write     bool
	cancel    context.CancelFunc
	cancelled bool // cancel issued (by op or pre)
	returned  bool
	ok        bool
	err       error
	release   func()
	relIssued bool
	wasBlock  bool   // observed blocked at a full quiescence point
	barrier   []*acq // write waiters this read acquire must not overtake
}

// lockAPI abstracts Mutex and RWMutex.
type lockAPI struct {
	rw *csync.RWMutex
	m  *csync.Mutex
}

func (l lockAPI) Lock(ctx context.Context, w bool) (func(), error) {
	if l.rw != nil {
		return l.rw.Lock(ctx, w)
	}
	return l.m.Lock(ctx)
}

func (l lockAPI) TryLock(w bool) (func(), bool) {
	if l.rw != nil {
		return l.rw.TryLock(w)
	}
	return l.m.TryLock()
}

var parkPoints = []string{"broadcast.lock", "broadcast.unlocked"}

// deadlineLike is a context whose Err() reports DeadlineExceeded once it is done.
type deadlineLike struct{ context.Context }

func (d deadlineLike) Err() error {
	if d.Context.Err() != nil {
		return context.DeadlineExceeded
	}
	return nil
}

func run(t *testing.T, cs Case) *ev.Verdict {
	v := &ev.Verdict{}
	canon, _ := json.Marshal(struct {
		RW  bool
		Ops []Op
	}{cs.RW, cs.Ops})
	v.Canon = string(canon)
	c, berr := sched.Run(t, parkPoints, cs.Sched, func(c *sched.Ctl) { body(c, cs, v) })
	v.Trace = c.Trace()
	if c.Prio {
		v.Class("priority-schedule")
	}
	if c.Mix {
		v.Class("uniform-decisions")
	}
	if c.StepLimit {
		v.Infra = "step limit exceeded"
	}
	if berr != "" && len(v.Viol) == 0 {
		v.Add("C02", "csync:leak", "bubble ended with blocked goroutines: %s", berr)
	}
	return v
}

func body(c *sched.Ctl, cs Case, v *ev.Verdict) {
	var api lockAPI
	var wl, rl sync.Locker
	if cs.RW {
		api.rw = &csync.RWMutex{}
		wl, rl = api.rw.Locker(), api.rw.RLocker()
	} else {
		api.m = &csync.Mutex{}
		wl = api.m.Locker()
		rl = wl
	}
	wr := func(w bool) bool { return w || !cs.RW } // effective write mode

	var hm sync.Mutex // harness state lock (never held across library calls)
	var R, W int
	var acqs []*acq
	lockerHeld := map[bool]int{} // completed locker Lock()s not yet Unlock()ed, by write
	var vm sync.Mutex
	fail := func(prop, sig, f string, a ...any) {
		vm.Lock()
		v.Add(prop, sig, f, a...)
		vm.Unlock()
	}
	occupy := func(a *acq) { // hm held
		if a.write {
			W++
		} else {
			R++
		}
		if W > 1 || (W == 1 && R > 0) {
			fail("C01", "csync:exclusion", "after acquire #%d (%s write=%v): write holders=%d read holders=%d", a.id, a.kind, a.write, W, R)
		}
		for _, w := range a.barrier {
			if !w.returned && !w.cancelled {
				fail("C02", "csync:reader-overtook-writer", "read acquire #%d (%s) issued while write Lock #%d was already waiting was granted before that writer acquired or gave up", a.id, a.kind, w.id)
			}
		}
	}
	vacate := func(a *acq) { // hm held; before calling release
		if a.write {
			W--
		} else {
			R--
		}
	}

	lastFullQ := false
	overlapped, contended, cancelledBlocked, readerBehindWriter := false, false, false, false

	// oracle evaluated at full quiescence
	quiescentOracle := func(where string) {
		hm.Lock()
		defer hm.Unlock()
		var bw, br []*acq
		for _, a := range acqs {
			if a.kind == "try" || a.returned {
				continue
			}
			if a.cancelled {
				fail("C02", "csync:cancelled-not-returned", "%s: Lock #%d (write=%v) whose context was cancelled is still blocked at full quiescence", where, a.id, a.write)
				continue
			}
			a.wasBlock = true
			contended = true
			if a.write {
				bw = append(bw, a)
			} else {
				br = append(br, a)
			}
		}
		if len(bw) > 0 && R == 0 && W == 0 {
			fail("C02", "csync:writer-blocked-while-free", "%s: write Lock #%d is blocked at full quiescence although nobody holds the lock", where, bw[0].id)
		}
		if len(br) > 0 && W == 0 && len(bw) == 0 {
			fail("C02", "csync:reader-blocked-while-grantable", "%s: read Lock #%d is blocked at full quiescence although no writer holds or waits (read holders=%d)", where, br[0].id, R)
		}
		if len(br) > 0 && len(bw) > 0 {
			readerBehindWriter = true
		}
	}

	probe := func(where string) {
		hm.Lock()
		r, w := R, W
		nbw := 0
		for _, a := range acqs {
			if a.kind != "try" && !a.returned && a.write && !a.cancelled {
				nbw++
			}
		}
		hm.Unlock()
		// write probe
		rel, ok := api.TryLock(true)
		exp := r == 0 && w == 0
		if ok != exp {
			prop := "C01"
			fail(prop, "csync:probe-write", "%s: TryLock(write) at full quiescence = %v, but harness sees write holders=%d read holders=%d", where, ok, w, r)
		}
		if ok {
			if rel == nil {
				fail("C01", "csync:nil-release", "TryLock returned true with nil release")
			} else {
				rel()
			}
		} else if rel != nil {
			fail("C01", "csync:trylock-false-nonnil", "TryLock returned false with a non-nil release func")
		}
		c.Settle(true)
		if cs.RW {
			rel, ok = api.TryLock(false)
			exp = w == 0 && nbw == 0
			if ok != exp {
				prop := "C02"
				if nbw == 0 && w == 0 {
					// nobody waits, nobody writes: state leaked by an earlier call
					prop = "C02"
				}
				fail(prop, "csync:probe-read", "%s: TryLock(read) at full quiescence = %v, but harness sees write holders=%d, blocked uncancelled write Locks=%d", where, ok, w, nbw)
			}
			if ok && rel != nil {
				rel()
			}
			c.Settle(true)
		}
	}

	eligible := func(f func(a *acq) bool) []*acq {
		var out []*acq
		for _, a := range acqs {
			if f(a) {
				out = append(out, a)
			}
		}
		return out
	}

	for i, op := range cs.Ops {
		if len(v.Viol) > 0 || c.StepLimit {
			break
		}
		label := fmt.Sprintf("o%02d", i)
		v.OpsTotal++
		eff := true
		switch op.K {
		case "lock", "try", "llock":
			hm.Lock()
			a := &acq{id: len(acqs), kind: op.K, write: wr(op.W)}
			for _, o := range acqs {
				if o.kind != "try" && !o.returned {
					overlapped = true
				}
			}
			if !a.write && lastFullQ {
				for _, o := range acqs {
					if o.kind != "try" && o.write && !o.returned && !o.cancelled {
						a.barrier = append(a.barrier, o)
					}
				}
			}
			acqs = append(acqs, a)
			hm.Unlock()
			switch op.K {
			case "lock":
				ctx, cancel := context.WithCancel(context.Background())
				if a.id%3 == 0 {
					// a context that is cancelled with a cause: Err() is still context.Canceled
					cctx, ccancel := context.WithCancelCause(context.Background())
					ctx, cancel = cctx, func() { ccancel(fmt.Errorf("cancel-cause-%d", a.id)) }
				}
				if a.id%3 == 1 {
					// a context that ends like an expired deadline: Err() is DeadlineExceeded, the
					// documented answer of a waiter that gives up is still context.Canceled
					ctx = deadlineLike{ctx}
				}
				a.cancel = cancel
				if op.Pre {
					cancel()
					a.cancelled = true
				}
				c.Go(label, func() {
					rel, err := api.Lock(ctx, a.write)
					hm.Lock()
					defer hm.Unlock()
					a.returned, a.err, a.ok, a.release = true, err, err == nil, rel
					if err != nil {
						if err != context.Canceled {
							fail("C02", "csync:lock-error", "Lock #%d, whose context was cancelled, returned %v instead of context.Canceled", a.id, err)
						}
						if !a.cancelled {
							fail("C01", "csync:spurious-cancel", "Lock #%d returned %v although its context was never cancelled", a.id, err)
						}
						if rel != nil {
							fail("C01", "csync:error-nonnil-release", "Lock #%d returned an error and a non-nil release", a.id)
						}
						if a.wasBlock {
							cancelledBlocked = true
						}
						return
					}
					if rel == nil {
						fail("C01", "csync:nil-release", "Lock #%d returned nil release without error", a.id)
						return
					}
					occupy(a)
				})
			case "try":
				c.Go(label, func() {
					rel, ok := api.TryLock(a.write)
					hm.Lock()
					defer hm.Unlock()
					a.returned, a.ok, a.release = true, ok, rel
					if !ok {
						contended = true
						if rel != nil {
							fail("C01", "csync:trylock-false-nonnil", "TryLock #%d returned false with a non-nil release func", a.id)
						}
						return
					}
					if rel == nil {
						fail("C01", "csync:nil-release", "TryLock #%d returned true with nil release", a.id)
						return
					}
					occupy(a)
				})
			case "llock":
				l := rl
				if a.write {
					l = wl
				}
				c.Go(label, func() {
					l.Lock()
					hm.Lock()
					defer hm.Unlock()
					a.returned, a.ok = true, true
					lockerHeld[a.write]++
					occupy(a)
				})
			}
		case "lunlock":
			w := wr(op.W)
			hm.Lock()
			if lockerHeld[w] == 0 {
				eff = false
				hm.Unlock()
				break
			}
			lockerHeld[w]--
			// any holder through this locker leaves
			if w {
				W--
			} else {
				R--
			}
			hm.Unlock()
			l := rl
			if w {
				l = wl
			}
			c.Go(label, func() { l.Unlock() })
		case "rel":
			hm.Lock()
			el := eligible(func(a *acq) bool { return a.kind != "llock" && a.returned && a.ok && !a.relIssued })
			if len(el) == 0 {
				eff = false
				hm.Unlock()
				break
			}
			a := el[op.Pick%len(el)]
			a.relIssued = true
			vacate(a)
			hm.Unlock()
			c.Go(label, func() { a.release() })
		case "rel2":
			hm.Lock()
			el := eligible(func(a *acq) bool { return a.kind != "llock" && a.relIssued })
			if len(el) == 0 {
				eff = false
				hm.Unlock()
				break
			}
			a := el[op.Pick%len(el)]
			hm.Unlock()
			v.Class("double-release")
			c.Go(label, func() { a.release() })
		case "cancel":
			hm.Lock()
			el := eligible(func(a *acq) bool { return a.kind == "lock" && !a.returned && !a.cancelled })
			if len(el) == 0 {
				el = eligible(func(a *acq) bool { return a.kind == "lock" && !a.cancelled })
			}
			if len(el) == 0 {
				eff = false
				hm.Unlock()
				break
			}
			a := el[op.Pick%len(el)]
			a.cancelled = true
			hm.Unlock()
			a.cancel()
		case "probe":
			if c.Settle(true) {
				quiescentOracle(fmt.Sprintf("probe op %d", i))
				if len(v.Viol) == 0 {
					probe(fmt.Sprintf("probe op %d", i))
				}
			}
		}
		if eff {
			v.OpsEffective++
		}
		lastFullQ = c.Settle(false)
		if lastFullQ {
			quiescentOracle(fmt.Sprintf("after op %d", i))
		}
	}

	if len(v.Viol) == 0 && !c.StepLimit {
		if c.Settle(true) {
			quiescentOracle("end")
			if len(v.Viol) == 0 {
				probe("end")
			}
		}
	}
	if p := c.Panics(); p != "" {
		v.Add("C01", "csync:panic", "operation panicked: %s", p)
	}

	// cleanup: nothing parks any more; cancel waiters, release holders until stable
	c.PassThrough()
	hadViol := len(v.Viol) > 0
	for round := 0; round < 400; round++ {
		c.Wait()
		hm.Lock()
		var todo func()
		for _, a := range acqs {
			if a.cancel != nil && !a.cancelled && !a.returned {
				a.cancelled = true
				todo = a.cancel
				break
			}
		}
		if todo == nil {
			for _, a := range acqs {
				if a.kind != "llock" && a.returned && a.ok && !a.relIssued {
					a.relIssued = true
					vacate(a)
					todo = a.release
					break
				}
			}
		}
		if todo == nil {
			for _, w := range []bool{true, false} {
				if lockerHeld[w] > 0 {
					lockerHeld[w]--
					if w {
						W--
					} else {
						R--
					}
					l := rl
					if w {
						l = wl
					}
					todo = l.Unlock
					break
				}
			}
		}
		hm.Unlock()
		if todo == nil {
			break
		}
		todo()
	}
	c.Wait()
	if !hadViol {
		if b := c.Blocked(); len(b) > 0 {
			v.Add("C02", "csync:stuck-after-cleanup", "ops %v never returned although every context was cancelled and every holder released", b)
		} else {
			rel, ok := api.TryLock(true)
			if !ok {
				v.Add("C02", "csync:not-free-at-end", "after every holder released and every waiter returned, TryLock(write) fails")
			} else {
				rel()
			}
			if cs.RW {
				rel, ok = api.TryLock(false)
				if !ok {
					v.Add("C02", "csync:not-free-at-end", "after every holder released and every waiter returned, TryLock(read) fails")
				} else {
					rel()
				}
			}
		}
	}

	if overlapped && contended {
		v.SetNT("C01")
	}
	if cancelledBlocked || readerBehindWriter {
		v.SetNT("C02")
	}
	if cancelledBlocked {
		v.Class("lock-cancelled-while-blocked")
	}
	if readerBehindWriter {
		v.Class("reader-behind-waiting-writer")
	}
	if contended {
		v.Class("contended")
	}
}

func TestC01(t *testing.T) {
	ev.Drive(t, ev.Runner[Case]{
		Prop: "C01",
		Rule: "case = {Mutex|RWMutex, ops over lock/try/release/double-release/cancel/Locker/probe, schedule bytes}; non-trivial iff >=2 acquire attempts overlapped in time and at least one was contended (a Lock seen blocked at a full-quiescence point or a TryLock failed); distinct by hash(ops, realised grant trace)",
		Gen:  genCase("C01"),
		Run:  run,
	})
}

func TestC02(t *testing.T) {
	ev.Drive(t, ev.Runner[Case]{
		Prop: "C02",
		Rule: "same machine as C01 biased to waiters; non-trivial iff a Lock was cancelled after having been observed blocked at full quiescence, or a reader was blocked behind a waiting writer at full quiescence; distinct by hash(ops, realised grant trace)",
		Gen:  genCase("C02"),
		Run:  run,
	})
}
