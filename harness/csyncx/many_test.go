package csyncx

import (
	"context"
	"encoding/json"
	"testing"

	"github.com/aperturerobotics/util/csync"
	"pgregory.net/rapid"
	"verif/harness/ev"
)

// ManyCase: a large number of simultaneous read holders ("any number of read holders").
type ManyCase struct {
	N   int  `json:"n"`
	Try bool `json:"try"` // acquire through TryLock instead of Lock
}

func genMany(t *rapid.T) ManyCase {
	return ManyCase{
		N:   rapid.SampledFrom([]int{1, 2, 127, 128, 255, 256, 257, 32767, 32768, 65535, 65536, 65537, 131072}).Draw(t, "n"),
		Try: rapid.Bool().Draw(t, "try"),
	}
}

func runMany(t *testing.T, cs ManyCase) *ev.Verdict {
	v := &ev.Verdict{}
	cj, _ := json.Marshal(cs)
	v.Canon = string(cj)
	var rw csync.RWMutex
	rels := make([]func(), 0, cs.N)
	for i := 0; i < cs.N; i++ {
		if cs.Try {
			r, ok := rw.TryLock(false)
			if !ok {
				v.Add("C01", "csync:reader-refused", "read TryLock #%d was refused although only readers hold the lock", i)
				return v
			}
			rels = append(rels, r)
		} else {
			r, err := rw.Lock(context.Background(), false)
			if err != nil {
				v.Add("C01", "csync:reader-refused", "read Lock #%d failed: %v", i, err)
				return v
			}
			rels = append(rels, r)
		}
		// with i+1 read holders a writer must be refused
		if i == cs.N-1 || i == cs.N/2 {
			if r, ok := rw.TryLock(true); ok {
				v.Add("C01", "csync:exclusion", "a write TryLock was granted while %d read holders hold the lock", i+1)
				r()
				return v
			}
		}
	}
	for i, r := range rels {
		r()
		if i == len(rels)-2 {
			if w, ok := rw.TryLock(true); ok {
				v.Add("C01", "csync:exclusion", "a write TryLock was granted while one of %d read holders still holds the lock", cs.N)
				w()
				return v
			}
		}
	}
	if w, ok := rw.TryLock(true); !ok {
		v.Add("C01", "csync:not-free-at-end", "after all %d read holders released, a write TryLock fails", cs.N)
	} else {
		w()
	}
	if cs.N >= 2 {
		v.SetNT("C01")
		v.Class("many-read-holders")
	}
	return v
}

func TestC01ManyReaders(t *testing.T) {
	ev.Drive(t, ev.Runner[ManyCase]{
		Prop: "C01", ReplayRuns: 1,
		Rule: "n read holders acquired one after the other (n around the powers of two up to 131072, through Lock or TryLock); oracle: every reader is admitted, a write TryLock is refused while any reader holds, and granted after the last release; non-trivial iff n >= 2; distinct by case",
		Gen:  genMany,
		Run:  runMany,
	})
}
