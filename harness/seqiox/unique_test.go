package seqiox

import (
	"fmt"
	"sort"
	"testing"

	"github.com/aperturerobotics/util/unique"
	"pgregory.net/rapid"
	"verif/harness/ev"
)

// KV is the value type: key K, payload V.
type KV struct {
	K int `json:"k"`
	V int `json:"v"`
}

// UOp is one mutation.
type UOp struct {
	K    string `json:"k"` // set append remove removekeys
	Vals []KV   `json:"vals,omitempty"`
	Keys []int  `json:"keys,omitempty"`
}

// UniqueCase is a KeyedList / KeyedMap history.
type UniqueCase struct {
	Map     bool  `json:"map"`
	Mod     int   `json:"mod"` // cmp: equal iff payloads are equal mod Mod (0 = plain ==)
	Initial []KV  `json:"initial"`
	Ops     []UOp `json:"ops"`
}

func genUnique(t *rapid.T) UniqueCase {
	kv := rapid.Custom(func(t *rapid.T) KV {
		return KV{K: rapid.IntRange(0, 4).Draw(t, "k"), V: rapid.IntRange(0, 9).Draw(t, "v")}
	})
	var c UniqueCase
	c.Map = rapid.Bool().Draw(t, "map")
	c.Mod = rapid.SampledFrom([]int{0, 0, 2, 4}).Draw(t, "mod")
	c.Initial = rapid.SliceOfN(kv, 0, 4).Draw(t, "initial")
	op := rapid.Custom(func(t *rapid.T) UOp {
		o := UOp{K: rapid.SampledFrom([]string{"set", "set", "append", "append", "remove", "removekeys"}).Draw(t, "k")}
		if o.K == "removekeys" {
			o.Keys = rapid.SliceOfN(rapid.IntRange(0, 5), 0, 4).Draw(t, "keys")
		} else {
			o.Vals = rapid.SliceOfN(kv, 0, 6).Draw(t, "vals")
		}
		return o
	})
	c.Ops = rapid.SliceOfN(op, 1, ev.Pick(20, 80)).Draw(t, "ops")
	return c
}

type note struct {
	k              int
	v              KV
	added, removed bool
}

func sortedKVs(m map[int]KV) []KV {
	out := make([]KV, 0, len(m))
	for _, v := range m {
		out = append(out, v)
	}
	sort.Slice(out, func(i, j int) bool { return out[i].K < out[j].K })
	return out
}

func sameSetInts(a []int, m map[int]KV) bool {
	if len(a) != len(m) {
		return false
	}
	seen := map[int]bool{}
	for _, k := range a {
		if _, ok := m[k]; !ok || seen[k] {
			return false
		}
		seen[k] = true
	}
	return true
}

func sameVals(a []KV, m map[int]KV) bool {
	if len(a) != len(m) {
		return false
	}
	seen := map[int]bool{}
	for _, v := range a {
		if mv, ok := m[v.K]; !ok || mv != v || seen[v.K] {
			return false
		}
		seen[v.K] = true
	}
	return true
}

func checkUnique(_ *testing.T, v *ev.Verdict, c UniqueCase) {
	dups, cmpKept := false, false
	guard(v, "unique:panic", func() {
		cmp := func(k int, a, b KV) bool {
			if c.Mod == 0 {
				return a == b
			}
			return a.K == b.K && a.V%c.Mod == b.V%c.Mod
		}
		var log []note
		changed := func(k int, val KV, added, removed bool) {
			log = append(log, note{k, val, added, removed})
		}
		model := map[int]KV{}
		for _, x := range c.Initial {
			model[x.K] = x // NewKeyedList: last one wins, no comparison
		}
		var list *unique.KeyedList[int, KV]
		var mp *unique.KeyedMap[int, KV]
		if c.Map {
			var init map[int]KV // no initial contents: a nil map (callers pass nil for "empty")
			if len(model) > 0 {
				init = map[int]KV{}
			}
			for k, x := range model {
				init[k] = x
			}
			mp = unique.NewKeyedMap[int, KV](cmp, changed, init)
		} else {
			initial := c.Initial
			if len(initial) == 0 {
				initial = nil
			}
			list = unique.NewKeyedList[int, KV](func(x KV) int { return x.K }, cmp, changed, initial)
		}
		apply := func(m map[int]KV, x KV) {
			if old, ok := m[x.K]; ok {
				if !cmp(x.K, x, old) {
					m[x.K] = x
				} else if old != x {
					cmpKept = true
				}
			} else {
				m[x.K] = x
			}
		}
		for i, op := range c.Ops {
			prev := map[int]KV{}
			for k, x := range model {
				prev[k] = x
			}
			log = nil
			seenK := map[int]bool{}
			for _, x := range op.Vals {
				if seenK[x.K] {
					dups = true
				}
				seenK[x.K] = true
			}
			// a map argument cannot contain duplicates: the last value per key is what the caller passes
			valsMap := map[int]KV{}
			for _, x := range op.Vals {
				valsMap[x.K] = x
			}
			switch op.K {
			case "set":
				if c.Map {
					passed := map[int]KV{}
					for k, x := range valsMap {
						passed[k] = x
					}
					mp.SetValues(passed)
					// the caller goes on using its map: the KeyedMap's contents are its own
					for k := range passed {
						delete(passed, k)
					}
					passed[-1] = KV{K: -1, V: 12345}
					for _, x := range valsMap {
						apply(model, x)
					}
					for k := range model {
						if _, ok := valsMap[k]; !ok {
							delete(model, k)
						}
					}
				} else {
					list.SetValues(op.Vals...)
					for _, x := range op.Vals {
						apply(model, x)
					}
					for k := range model {
						if !seenK[k] {
							delete(model, k)
						}
					}
				}
			case "append":
				if c.Map {
					passed := map[int]KV{}
					for k, x := range valsMap {
						passed[k] = x
					}
					mp.AppendValues(passed)
					for k := range passed {
						delete(passed, k)
					}
					for _, x := range valsMap {
						apply(model, x)
					}
				} else {
					list.AppendValues(op.Vals...)
					for _, x := range op.Vals {
						apply(model, x)
					}
				}
			case "remove":
				if c.Map {
					keys := []int{}
					for _, x := range op.Vals {
						keys = append(keys, x.K)
					}
					mp.RemoveKeys(keys...)
				} else {
					list.RemoveValues(op.Vals...)
				}
				for _, x := range op.Vals {
					delete(model, x.K)
				}
			case "removekeys":
				if c.Map {
					mp.RemoveKeys(op.Keys...)
				} else {
					list.RemoveKeys(op.Keys...)
				}
				for _, k := range op.Keys {
					delete(model, k)
				}
			}
			var keys []int
			var vals []KV
			if c.Map {
				keys, vals = mp.GetKeys(), mp.GetValues()
			} else {
				keys, vals = list.GetKeys(), list.GetValues()
			}
			if !sameSetInts(keys, model) || !sameVals(vals, model) {
				sort.Ints(keys)
				v.Add(P, "unique:contents", "after op %d %+v: keys=%v values=%v, reference model holds %v", i, op, keys, vals, sortedKVs(model))
				return
			}
			// replay the notifications on the previous contents
			for j, n := range log {
				_, present := prev[n.k]
				switch {
				case n.added && n.removed:
					v.Add(P, "unique:notify-flags", "op %d notification %d has added and removed both set", i, j)
					return
				case n.removed:
					if !present {
						v.Add(P, "unique:notify-flags", "op %d notification %d removes key %d which is not present at that point", i, j, n.k)
						return
					}
					delete(prev, n.k)
				case n.added:
					if present {
						v.Add(P, "unique:notify-flags", "op %d notification %d adds key %d which is already present", i, j, n.k)
						return
					}
					prev[n.k] = n.v
				default:
					if !present {
						v.Add(P, "unique:notify-flags", "op %d notification %d changes key %d which is not present (should be added)", i, j, n.k)
						return
					}
					prev[n.k] = n.v
				}
				if n.v.K != n.k {
					v.Add(P, "unique:notify-key", "op %d notification %d: key %d with value of key %d", i, j, n.k, n.v.K)
					return
				}
			}
			if fmt.Sprint(sortedKVs(prev)) != fmt.Sprint(sortedKVs(model)) {
				v.Add(P, "unique:notify-replay", "op %d %+v: replaying %d notifications on the previous contents gives %v, contents are %v", i, op, len(log), sortedKVs(prev), sortedKVs(model))
				return
			}
		}
	})
	if dups {
		v.Class("duplicate-keys-in-one-call")
	}
	if cmpKept {
		v.Class("equal-by-cmp-old-kept")
	}
	if dups || cmpKept {
		v.SetNT(P)
	}
}

func TestC20Unique(t *testing.T) {
	drive(t, "KeyedList/KeyedMap over 5 keys x 10 payloads, custom comparison (equal mod 2/4) or ==; ops SetValues/AppendValues/RemoveValues/RemoveKeys with duplicate keys inside one call; oracle: contents == model (old value kept when cmp says equal), notification log replayed on previous contents == new contents with consistent flags; non-trivial iff a call carried duplicate keys or cmp kept an old differing value; distinct by input", genUnique, checkUnique)
}
