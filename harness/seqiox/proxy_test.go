package seqiox

import (
	"bytes"
	"errors"
	"io"
	"net"
	"sync"
	"sync/atomic"
	"testing"
	"testing/synctest"
	"time"

	"github.com/aperturerobotics/util/ioproxy"
	"pgregory.net/rapid"
	"verif/harness/ev"
)

// ProxyCase describes traffic through ProxyStreams.
type ProxyCase struct {
	AtoB    [][]byte `json:"atob"` // chunks written by A
	BtoA    [][]byte `json:"btoa"` // chunks written by B
	ReadBuf int      `json:"readbuf"`
	Closer  string   `json:"closer"`            // which end closes first: A | B
	TailEOF bool     `json:"taileof,omitempty"` // the A side is a stream that returns its last bytes together with io.EOF
	NilCb   bool     `json:"nilcb,omitempty"`
	// the finite streams answer Close with an error (a connection that is already gone does)
	CloseErr bool `json:"closeerr,omitempty"`
}

func genProxy(t *rapid.T) ProxyCase {
	chunk := rapid.SliceOfN(rapid.Byte(), 0, ev.Pick(40, 20000))
	return ProxyCase{
		AtoB:     rapid.SliceOfN(chunk, 0, 6).Draw(t, "atob"),
		BtoA:     rapid.SliceOfN(chunk, 0, 6).Draw(t, "btoa"),
		ReadBuf:  rapid.IntRange(1, 64).Draw(t, "readbuf"),
		Closer:   rapid.SampledFrom([]string{"A", "B"}).Draw(t, "closer"),
		NilCb:    rapid.IntRange(0, 9).Draw(t, "nilcb") == 0,
		TailEOF:  rapid.IntRange(0, 3).Draw(t, "taileof") == 0,
		CloseErr: rapid.IntRange(0, 2).Draw(t, "closeerr") == 0,
	}
}

// tailReader is a stream whose Read hands out its last bytes together with io.EOF
// (allowed by the io.Reader contract; files and TLS connections do it).
type tailReader struct {
	mu       sync.Mutex
	chunks   [][]byte
	closes   atomic.Int32
	wrote    int
	closeErr error
}

func (r *tailReader) Read(p []byte) (int, error) {
	r.mu.Lock()
	defer r.mu.Unlock()
	for len(r.chunks) > 0 && len(r.chunks[0]) == 0 {
		r.chunks = r.chunks[1:]
	}
	if len(r.chunks) == 0 {
		return 0, io.EOF
	}
	n := copy(p, r.chunks[0])
	r.chunks[0] = r.chunks[0][n:]
	rest := 0
	for _, c := range r.chunks {
		rest += len(c)
	}
	if rest == 0 {
		return n, io.EOF
	}
	return n, nil
}

func (r *tailReader) Write(p []byte) (int, error) {
	if r.closes.Load() > 0 {
		return 0, io.ErrClosedPipe
	}
	r.mu.Lock()
	r.wrote += len(p)
	r.mu.Unlock()
	return len(p), nil
}

func (r *tailReader) Close() error { r.closes.Add(1); return r.closeErr }

// checkProxyTail: the A side delivers its last bytes together with io.EOF.
func checkProxyTail(t *testing.T, v *ev.Verdict, c ProxyCase, fail func(sig, f string, a ...any)) {
	var bubbleErr any
	func() {
		defer func() { bubbleErr = recover() }()
		synctest.Test(t, func(t *testing.T) {
			var chunks [][]byte
			for _, ch := range c.AtoB {
				chunks = append(chunks, append([]byte(nil), ch...))
			}
			src := &tailReader{chunks: chunks}
			if c.CloseErr {
				src.closeErr = errors.New("close: connection reset")
			}
			b1, b2 := net.Pipe()
			p2 := &countConn{Conn: b1}
			var cbs atomic.Int32
			ioproxy.ProxyStreams(src, p2, func() { cbs.Add(1) })
			var got bytes.Buffer
			var done atomic.Bool
			go func() {
				b := make([]byte, c.ReadBuf)
				for {
					n, err := b2.Read(b)
					got.Write(b[:n])
					if err != nil {
						done.Store(true)
						return
					}
				}
			}()
			synctest.Wait()
			want := bytes.Join(c.AtoB, nil)
			if !done.Load() {
				fail("ioproxy:peer-not-notified", "the A side reported EOF but B's reader was not told")
			} else if !bytes.Equal(got.Bytes(), want) {
				fail("ioproxy:a-to-b", "B received %d bytes, the A side delivered %d (its last Read returned data together with io.EOF; first difference at %d)", got.Len(), len(want), firstDiff(got.Bytes(), want))
			}
			if src.closes.Load() == 0 || p2.closes.Load() == 0 {
				fail("ioproxy:not-closed", "after EOF on the A side: closes A=%d B-side=%d, want both closed", src.closes.Load(), p2.closes.Load())
			}
			if n := cbs.Load(); n != 2 {
				fail("ioproxy:callback-count", "callback ran %d times after EOF, want exactly 2", n)
			}
			b2.Close()
		})
	}()
	if bubbleErr != nil && len(v.Viol) == 0 {
		fail("ioproxy:leak", "goroutines left behind: %v", bubbleErr)
	}
	if len(c.AtoB) > 0 {
		v.SetNT(P)
	}
	v.Class("last-bytes-delivered-with-eof")
	if c.CloseErr {
		v.Class("close-answers-with-an-error")
	}
}

// checkProxyBothEOF: both sides are finite streams that end on their own. The callback
// holds its first caller until the second one has arrived; by then ("called if either of the
// streams close") both sides must have been closed.
func checkProxyBothEOF(t *testing.T, v *ev.Verdict, c ProxyCase, fail func(sig, f string, a ...any)) {
	var bubbleErr any
	func() {
		defer func() { bubbleErr = recover() }()
		synctest.Test(t, func(t *testing.T) {
			mk := func(in [][]byte) *tailReader {
				var chunks [][]byte
				for _, ch := range in {
					chunks = append(chunks, append([]byte(nil), ch...))
				}
				r := &tailReader{chunks: chunks}
				if c.CloseErr {
					r.closeErr = errors.New("close: connection reset")
				}
				return r
			}
			a, b := mk(c.AtoB), mk(c.BtoA)
			var cbs atomic.Int32
			second := make(chan struct{})
			var closedAtSecond atomic.Int32
			closedAtSecond.Store(-1)
			ioproxy.ProxyStreams(a, b, func() {
				if cbs.Add(1) == 1 {
					select {
					case <-second:
					case <-time.After(time.Minute): // (virtual) the other direction never finished
					}
					return
				}
				n := int32(0)
				if a.closes.Load() > 0 {
					n++
				}
				if b.closes.Load() > 0 {
					n++
				}
				closedAtSecond.Store(n)
				close(second)
			})
			time.Sleep(2 * time.Minute)
			synctest.Wait()
			if n := cbs.Load(); n != 2 {
				fail("ioproxy:callback-count", "both sides ended on their own; callback ran %d times, want exactly 2", n)
			} else if closedAtSecond.Load() != 2 {
				fail("ioproxy:callback-before-close", "when the callback was called the second time only %d of the two sides had been closed", closedAtSecond.Load())
			}
			if a.closes.Load() == 0 || b.closes.Load() == 0 {
				fail("ioproxy:not-closed", "both sides ended on their own: closes A=%d B=%d, want both closed", a.closes.Load(), b.closes.Load())
			}
			wantA, wantB := 0, 0
			for _, ch := range c.BtoA {
				wantA += len(ch)
			}
			for _, ch := range c.AtoB {
				wantB += len(ch)
			}
			// (a side stops accepting data once it is closed; what arrived before is a prefix)
			a.mu.Lock()
			gotA := a.wrote
			a.mu.Unlock()
			b.mu.Lock()
			gotB := b.wrote
			b.mu.Unlock()
			if gotA > wantA || gotB > wantB {
				fail("ioproxy:bytes-invented", "A received %d of %d bytes, B received %d of %d", gotA, wantA, gotB, wantB)
			}
		})
	}()
	if bubbleErr != nil && len(v.Viol) == 0 {
		fail("ioproxy:leak", "goroutines left behind: %v", bubbleErr)
	}
	v.SetNT(P)
	v.Class("both-sides-end-on-their-own")
}

// countConn counts Close calls on a net.Conn.
type countConn struct {
	net.Conn
	closes atomic.Int32
}

func (c *countConn) Close() error {
	c.closes.Add(1)
	return c.Conn.Close()
}

func checkProxy(t *testing.T, v *ev.Verdict, c ProxyCase) {
	var mu sync.Mutex
	fail := func(sig, f string, a ...any) {
		mu.Lock()
		v.Add(P, sig, f, a...)
		mu.Unlock()
	}
	if c.TailEOF && c.Closer == "B" {
		checkProxyBothEOF(t, v, c, fail)
		return
	}
	if c.TailEOF {
		checkProxyTail(t, v, c, fail)
		return
	}
	var bubbleErr any
	func() {
		defer func() { bubbleErr = recover() }()
		synctest.Test(t, func(t *testing.T) {
			a1, a2 := net.Pipe() // A's end, proxy's end
			b1, b2 := net.Pipe() // proxy's end, B's end
			p1, p2 := &countConn{Conn: a2}, &countConn{Conn: b1}
			var cbs atomic.Int32
			var cb func()
			if !c.NilCb {
				cb = func() { cbs.Add(1) }
			}
			ioproxy.ProxyStreams(p1, p2, cb)

			type rd struct {
				buf  bytes.Buffer
				err  error
				done atomic.Bool
			}
			reader := func(conn net.Conn, r *rd) {
				b := make([]byte, c.ReadBuf)
				for {
					n, err := conn.Read(b)
					mu.Lock()
					r.buf.Write(b[:n])
					mu.Unlock()
					if err != nil {
						r.err = err
						r.done.Store(true)
						return
					}
				}
			}
			var ra, rb rd
			go reader(a1, &ra)
			go reader(b2, &rb)
			writer := func(conn net.Conn, chunks [][]byte, name string) {
				for i, ch := range chunks {
					n, err := conn.Write(ch)
					if err != nil || n != len(ch) {
						fail("ioproxy:write-failed", "%s write %d of %d bytes = (%d,%v) while both sides are open", name, i, len(ch), n, err)
						return
					}
				}
			}
			go writer(a1, c.AtoB, "A")
			go writer(b2, c.BtoA, "B")
			synctest.Wait()
			wantAB, wantBA := bytes.Join(c.AtoB, nil), bytes.Join(c.BtoA, nil)
			mu.Lock()
			gotAB, gotBA := append([]byte(nil), rb.buf.Bytes()...), append([]byte(nil), ra.buf.Bytes()...)
			mu.Unlock()
			if !bytes.Equal(gotAB, wantAB) {
				fail("ioproxy:a-to-b", "B received %d bytes, A wrote %d (first difference at %d)", len(gotAB), len(wantAB), firstDiff(gotAB, wantAB))
			}
			if !bytes.Equal(gotBA, wantBA) {
				fail("ioproxy:b-to-a", "A received %d bytes, B wrote %d (first difference at %d)", len(gotBA), len(wantBA), firstDiff(gotBA, wantBA))
			}
			if ra.done.Load() || rb.done.Load() {
				fail("ioproxy:early-close", "a reader saw an error before either side closed: A=%v B=%v", ra.err, rb.err)
			}
			if n := cbs.Load(); n != 0 {
				fail("ioproxy:early-callback", "callback ran %d times before either side closed", n)
			}
			if c.Closer == "A" {
				a1.Close()
			} else {
				b2.Close()
			}
			synctest.Wait()
			if p1.closes.Load() == 0 || p2.closes.Load() == 0 {
				fail("ioproxy:not-closed", "after %s closed: proxied streams closed s1=%d s2=%d times, want both closed", c.Closer, p1.closes.Load(), p2.closes.Load())
			}
			if !ra.done.Load() || !rb.done.Load() {
				fail("ioproxy:peer-not-notified", "after %s closed: reader A done=%v reader B done=%v (the far side must observe the close)", c.Closer, ra.done.Load(), rb.done.Load())
			}
			if !c.NilCb {
				if n := cbs.Load(); n != 2 {
					fail("ioproxy:callback-count", "callback ran %d times after close, want exactly 2", n)
				}
			}
			// the far end can no longer write
			far := net.Conn(b2)
			if c.Closer == "B" {
				far = a1
			}
			werr := make(chan error, 1)
			go func() { _, err := far.Write([]byte{1}); werr <- err }()
			synctest.Wait()
			select {
			case err := <-werr:
				if err == nil {
					fail("ioproxy:write-after-close", "write on the far end succeeded after the proxy shut down")
				}
			default:
				fail("ioproxy:write-after-close-blocks", "write on the far end blocks after the proxy shut down (its side was not closed)")
			}
			a1.Close()
			b2.Close()
		})
	}()
	if bubbleErr != nil && len(v.Viol) == 0 {
		fail("ioproxy:leak", "goroutines left behind: %v", bubbleErr)
	}
	big := false
	for _, ch := range append(append([][]byte{}, c.AtoB...), c.BtoA...) {
		if len(ch) > 8192 {
			big = true
		}
	}
	if len(c.AtoB) > 0 && len(c.BtoA) > 0 {
		v.SetNT(P)
		v.Class("bidirectional")
	}
	if big {
		v.Class("chunk-larger-than-copy-buffer")
	}
}

func firstDiff(a, b []byte) int {
	n := min(len(a), len(b))
	for i := 0; i < n; i++ {
		if a[i] != b[i] {
			return i
		}
	}
	return n
}

var _ = io.EOF

func TestC20Proxy(t *testing.T) {
	drive(t, "two net.Pipe pairs joined by ProxyStreams inside a synctest bubble; generated chunk lists in both directions (chunks up to 20000 bytes in the thorough tier, i.e. larger than the 8192-byte copy buffer), reader buffer size, which end closes first, nil callback; oracle at quiescence: every byte delivered in order in both directions before any close, no early callback, after the close both proxied streams closed, far reader notified, callback count exactly 2, far writes fail; non-trivial iff traffic flowed in both directions; distinct by input", genProxy, checkProxy)
}
