package seqiox

import (
	"runtime"
	"sync"
	"sync/atomic"
	"testing"

	"github.com/aperturerobotics/util/iocloser"
	"pgregory.net/rapid"
	"verif/harness/ev"
)

// CloserParCase: goroutines use a ReadCloser / WriteCloser while another one closes it.
type CloserParCase struct {
	Write  bool  `json:"write"`
	Users  int   `json:"users"`
	Ops    int   `json:"ops"`
	Before int   `json:"before"` // yields of the closing goroutine before it calls Close
	Slow   []int `json:"slow"`   // yields inside the wrapped stream's call, cycled
}

func genCloserPar(t *rapid.T) CloserParCase {
	return CloserParCase{
		Write:  rapid.Bool().Draw(t, "write"),
		Users:  rapid.IntRange(1, 6).Draw(t, "users"),
		Ops:    rapid.IntRange(1, 40).Draw(t, "ops"),
		Before: rapid.IntRange(0, 30).Draw(t, "before"),
		Slow:   rapid.SliceOfN(rapid.IntRange(0, 5), 1, 4).Draw(t, "slow"),
	}
}

type parStream struct {
	c             *CloserParCase
	inUse         atomic.Int32
	calls         atomic.Int32
	closeReturned atomic.Bool
	lateTouch     atomic.Int32
}

func (s *parStream) touch() {
	if s.closeReturned.Load() {
		s.lateTouch.Add(1)
	}
	s.inUse.Add(1)
	n := int(s.calls.Add(1))
	for i := 0; i < s.c.Slow[n%len(s.c.Slow)]; i++ {
		runtime.Gosched()
	}
	s.inUse.Add(-1)
}

func (s *parStream) Write(p []byte) (int, error) { s.touch(); return len(p), nil }
func (s *parStream) Read(p []byte) (int, error)  { s.touch(); return len(p), nil }

// checkCloserPar: "after Close the wrapped stream is not touched" must hold for calls that
// are in flight when Close is called, too: when Close returns no call on the wrapped stream
// is in progress and none begins afterwards; the close function runs exactly once.
func checkCloserPar(_ *testing.T, v *ev.Verdict, c CloserParCase) {
	st := &parStream{c: &c}
	var closes atomic.Int32
	closeFn := func() error { closes.Add(1); return nil }
	var use func()
	var closeIt func() error
	if c.Write {
		w := iocloser.NewWriteCloser(st, closeFn)
		use, closeIt = func() { _, _ = w.Write([]byte{1, 2, 3}) }, w.Close
	} else {
		r := iocloser.NewReadCloser(st, closeFn)
		use, closeIt = func() { _, _ = r.Read(make([]byte, 3)) }, r.Close
	}
	var wg sync.WaitGroup
	var start atomic.Bool
	for g := 0; g < c.Users; g++ {
		wg.Add(1)
		go func() {
			defer wg.Done()
			for !start.Load() {
			}
			for i := 0; i < c.Ops; i++ {
				use()
			}
		}()
	}
	inFlightAtReturn := int32(0)
	wg.Add(1)
	go func() {
		defer wg.Done()
		for !start.Load() {
		}
		for i := 0; i < c.Before; i++ {
			runtime.Gosched()
		}
		_ = closeIt()
		inFlightAtReturn = st.inUse.Load()
		st.closeReturned.Store(true)
		_ = closeIt() // a second Close must not run the close function again
	}()
	// further goroutines call Close at the same moment
	for k := 0; k < c.Users%3; k++ {
		wg.Add(1)
		go func() {
			defer wg.Done()
			for !start.Load() {
			}
			for i := 0; i < c.Before; i++ {
				runtime.Gosched()
			}
			_ = closeIt()
		}()
	}
	start.Store(true)
	wg.Wait()
	switch {
	case inFlightAtReturn != 0:
		v.Add(P, "iocloser:in-flight-at-close-return", "Close returned while %d call(s) on the wrapped stream were still in progress (%d users)", inFlightAtReturn, c.Users)
	case st.lateTouch.Load() != 0:
		v.Add(P, "iocloser:touched-after-close", "the wrapped stream was called %d time(s) after Close had returned", st.lateTouch.Load())
	case closes.Load() != 1:
		v.Add(P, "iocloser:close-count", "the close function ran %d times, want exactly once", closes.Load())
	}
	v.SetNT(P)
	v.Class("closer-used-while-closed-concurrently")
}

func TestC20CloserPar(t *testing.T) {
	drive(t, "1..6 goroutines x 1..40 Read|Write calls on a ReadCloser/WriteCloser whose wrapped stream yields 0..5 times per call, while one to three goroutines call Close (one of them twice) after 0..30 yields, with real parallelism; oracle: when Close returns no call on the wrapped stream is in progress and none begins afterwards, the close function runs exactly once; non-trivial always; distinct by input", genCloserPar, checkCloserPar)
}
