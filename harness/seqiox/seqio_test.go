// Package seqiox decides C20: sequential helpers against reference models.
package seqiox

import (
	"bytes"
	"errors"
	"fmt"
	"io"
	"math"
	"testing"

	"github.com/aperturerobotics/util/iocloser"
	"github.com/aperturerobotics/util/ioseek"
	"github.com/aperturerobotics/util/iosizer"
	"pgregory.net/rapid"
	"verif/harness/ev"
	"verif/harness/sched"
)

const P = "C20"

func guard(v *ev.Verdict, sig string, f func()) {
	defer func() {
		if r := recover(); r != nil {
			v.Add(P, sig, "panic: %v", r)
		}
	}()
	f()
}

func drive[C any](t *testing.T, rule string, gen func(*rapid.T) C, chk func(*testing.T, *ev.Verdict, C)) {
	ev.Drive(t, ev.Runner[C]{
		Prop: P, Rule: rule, Gen: gen, ReplayRuns: 1,
		Run: func(t *testing.T, c C) *ev.Verdict {
			v := &ev.Verdict{}
			// (a wrapped call that never returns is reported by the watchdog as a stalled case)
			sched.Guard(func() { chk(t, v, c) })
			return v
		},
	})
}

// ---------------- ReaderAtSeeker ----------------

// SeekOp is a Seek or Read.
type SeekOp struct {
	K      string `json:"k"` // seek | read
	Off    int64  `json:"off,omitempty"`
	Whence int    `json:"whence,omitempty"`
	N      int    `json:"n,omitempty"`
	// scripted behaviour of the wrapped ReaderAt for this read:
	// Short >= 0 limits the byte count and makes it return Err ("eof" or "boom").
	Short int    `json:"short"`
	Err   string `json:"err,omitempty"`
}

// SeekCase is data plus an operation sequence.
type SeekCase struct {
	Data []byte   `json:"data"`
	Ops  []SeekOp `json:"ops"`
}

var errBoom = errors.New("boom")

func genSeek(t *rapid.T) SeekCase {
	var c SeekCase
	c.Data = rapid.SliceOfN(rapid.Byte(), 0, ev.Pick(40, 300)).Draw(t, "data")
	size := int64(len(c.Data))
	op := rapid.Custom(func(t *rapid.T) SeekOp {
		if rapid.IntRange(0, 2).Draw(t, "isSeek") > 0 {
			o := SeekOp{K: "seek", Short: -1}
			o.Whence = rapid.SampledFrom([]int{0, 0, 1, 1, 2, 2, 3, -1}).Draw(t, "whence")
			switch rapid.IntRange(0, 4).Draw(t, "offclass") {
			case 0:
				o.Off = rapid.Int64Range(-3, 3).Draw(t, "off")
			case 1:
				o.Off = size + rapid.Int64Range(-3, 3).Draw(t, "off")
			case 2:
				o.Off = -size + rapid.Int64Range(-3, 3).Draw(t, "off")
			case 3:
				o.Off = rapid.SampledFrom([]int64{math.MaxInt64, math.MinInt64, math.MaxInt64 - 1, math.MinInt64 + 1, 1 << 32, -(1 << 32)}).Draw(t, "off")
			default:
				o.Off = rapid.Int64Range(-size-5, size+5).Draw(t, "off")
			}
			return o
		}
		o := SeekOp{K: "read", Short: -1}
		o.N = rapid.IntRange(0, 20).Draw(t, "n")
		if rapid.IntRange(0, 1).Draw(t, "scripted") == 0 {
			o.Short = rapid.IntRange(0, 10).Draw(t, "short")
			o.Err = rapid.SampledFrom([]string{"eof", "boom"}).Draw(t, "err")
		}
		return o
	})
	c.Ops = rapid.SliceOfN(op, 1, ev.Pick(30, 120)).Draw(t, "ops")
	return c
}

type scriptedReaderAt struct {
	data  []byte
	calls []string
	next  *SeekOp
}

func (s *scriptedReaderAt) ReadAt(p []byte, off int64) (int, error) {
	s.calls = append(s.calls, fmt.Sprintf("ReadAt(len=%d,off=%d)", len(p), off))
	if off < 0 {
		return 0, errors.New("negative offset")
	}
	if off >= int64(len(s.data)) {
		return 0, io.EOF
	}
	n := copy(p, s.data[off:])
	var err error
	if n < len(p) {
		err = io.EOF
	}
	if s.next != nil && s.next.Short >= 0 && s.next.Short < n {
		n = s.next.Short
		err = io.EOF
		if s.next.Err == "boom" {
			err = errBoom
		}
	}
	return n, err
}

func checkSeek(_ *testing.T, v *ev.Verdict, c SeekCase) {
	size := int64(len(c.Data))
	under := &scriptedReaderAt{data: c.Data}
	failedSeek, scripted := false, false
	guard(v, "ioseek:panic", func() {
		r := ioseek.NewReaderAtSeeker(under, size)
		pos := int64(0)
		for i, op := range c.Ops {
			switch op.K {
			case "seek":
				var target int64
				valid := true
				switch op.Whence {
				case io.SeekStart:
					target = op.Off
				case io.SeekCurrent:
					target, valid = addNoOverflow(pos, op.Off)
				case io.SeekEnd:
					target, valid = addNoOverflow(size, op.Off)
				default:
					valid = false
				}
				if valid && (target < 0 || target > size) {
					valid = false
				}
				got, err := r.Seek(op.Off, op.Whence)
				if valid {
					if err != nil || got != target {
						v.Add(P, "ioseek:seek-valid", "op %d Seek(%d,%d) at pos %d size %d = (%d,%v), want (%d,nil)", i, op.Off, op.Whence, pos, size, got, err, target)
						return
					}
					pos = target
				} else {
					failedSeek = true
					if err == nil {
						v.Add(P, "ioseek:seek-out-of-range-ok", "op %d Seek(%d,%d) at pos %d size %d is out of range / invalid but returned (%d,nil)", i, op.Off, op.Whence, pos, size, got)
						return
					}
				}
			case "read":
				o := op
				under.next = &o
				ncalls := len(under.calls)
				buf := make([]byte, op.N)
				for j := range buf {
					buf[j] = 0xEE
				}
				n, err := r.Read(buf)
				under.next = nil
				// expected result: what a section reader over the same (scripted) source yields
				avail := size - pos
				if avail < 0 {
					avail = 0
				}
				want := int64(op.N)
				if want > avail {
					want = avail
				}
				var wantErr []error // acceptable errors
				if want < int64(op.N) || avail == 0 {
					// (at the end a section reader answers EOF also to an empty buffer)
					wantErr = []error{io.EOF}
				} else if pos+want == size {
					wantErr = []error{nil, io.EOF}
				} else {
					wantErr = []error{nil}
				}
				if op.Short >= 0 && int64(op.Short) < want {
					scripted = true
					want = int64(op.Short)
					if op.Err == "boom" {
						wantErr = []error{errBoom}
					} else {
						wantErr = []error{io.EOF}
					}
				}
				okErr := false
				for _, e := range wantErr {
					if err == e {
						okErr = true
					}
				}
				if int64(n) != want || !okErr {
					v.Add(P, "ioseek:read-result", "op %d Read(len %d) at pos %d size %d = (%d,%v), want (%d, one of %v)", i, op.N, pos, size, n, err, want, wantErr)
					return
				}
				if n > 0 && !bytes.Equal(buf[:n], c.Data[pos:pos+int64(n)]) {
					v.Add(P, "ioseek:read-data", "op %d Read at pos %d returned wrong bytes", i, pos)
					return
				}
				if len(under.calls) > ncalls {
					wantCall := fmt.Sprintf("ReadAt(len=%d,off=%d)", op.N, pos)
					if under.calls[ncalls] != wantCall {
						v.Add(P, "ioseek:read-offset", "op %d Read issued %s to the wrapped ReaderAt, want %s", i, under.calls[ncalls], wantCall)
						return
					}
				}
				pos += int64(n)
			}
			// the position is observable
			if cur, err := r.Seek(0, io.SeekCurrent); err != nil || cur != pos {
				v.Add(P, "ioseek:position", "after op %d (%+v): position is (%d,%v), reference model says %d", i, op, cur, err, pos)
				return
			}
		}
	})
	if failedSeek {
		v.Class("seek-out-of-range")
	}
	if scripted {
		v.Class("scripted-short-read")
	}
	if failedSeek || scripted {
		v.SetNT(P)
	}
}

func addNoOverflow(a, b int64) (int64, bool) {
	s := a + b
	if (b > 0 && s < a) || (b < 0 && s > a) {
		return 0, false
	}
	return s, true
}

// ---------------- iosizer ----------------

// IOOp is a scripted Read/Write/Close.
type IOOp struct {
	K   string `json:"k"` // read write close
	N   int    `json:"n"`
	Ret int    `json:"ret"` // scripted byte count returned by the wrapped stream (clamped to N)
	Err string `json:"err,omitempty"`
}

// SizerCase is an op sequence over SizeReadWriter.
type SizerCase struct {
	NilR bool   `json:"nilr,omitempty"`
	NilW bool   `json:"nilw,omitempty"`
	Ops  []IOOp `json:"ops"`
}

func genIOOp(kinds []string) *rapid.Generator[IOOp] {
	return rapid.Custom(func(t *rapid.T) IOOp {
		o := IOOp{K: rapid.SampledFrom(kinds).Draw(t, "k")}
		if o.K == "close" {
			return o
		}
		o.N = rapid.IntRange(0, 16).Draw(t, "n")
		o.Ret = rapid.IntRange(0, o.N).Draw(t, "ret")
		if rapid.IntRange(0, 2).Draw(t, "full") > 0 {
			o.Ret = o.N
		}
		o.Err = rapid.SampledFrom([]string{"", "", "", "eof", "boom"}).Draw(t, "err")
		return o
	})
}

func genSizer(t *rapid.T) SizerCase {
	return SizerCase{
		NilR: rapid.IntRange(0, 9).Draw(t, "nilr") == 0,
		NilW: rapid.IntRange(0, 9).Draw(t, "nilw") == 0,
		Ops:  rapid.SliceOfN(genIOOp([]string{"read", "write"}), 1, ev.Pick(30, 120)).Draw(t, "ops"),
	}
}

func scriptErr(s string) error {
	switch s {
	case "eof":
		return io.EOF
	case "boom":
		return errBoom
	}
	return nil
}

// scriptedStream returns what the current op says and logs every call.
type scriptedStream struct {
	cur   *IOOp
	calls []string
	seq   byte
}

func (s *scriptedStream) Read(p []byte) (int, error) {
	s.calls = append(s.calls, fmt.Sprintf("Read(%d)", len(p)))
	if s.cur == nil {
		return 0, errors.New("unscripted read")
	}
	n := s.cur.Ret
	if n > len(p) {
		n = len(p)
	}
	for i := 0; i < n; i++ {
		s.seq++
		p[i] = s.seq
	}
	return n, scriptErr(s.cur.Err)
}

func (s *scriptedStream) Write(p []byte) (int, error) {
	s.calls = append(s.calls, fmt.Sprintf("Write(%x)", p))
	if s.cur == nil {
		return 0, errors.New("unscripted write")
	}
	n := s.cur.Ret
	if n > len(p) {
		n = len(p)
	}
	return n, scriptErr(s.cur.Err)
}

func checkSizer(_ *testing.T, v *ev.Verdict, c SizerCase) {
	short := false
	guard(v, "iosizer:panic", func() {
		st := &scriptedStream{}
		var rd io.Reader
		var wr io.Writer
		if !c.NilR {
			rd = st
		}
		if !c.NilW {
			wr = st
		}
		s := iosizer.NewSizeReadWriter(rd, wr)
		var total uint64
		for i, op := range c.Ops {
			o := op
			st.cur = &o
			buf := make([]byte, op.N)
			var n int
			var err error
			var wantN int
			var wantErr error
			if op.K == "read" {
				n, err = s.Read(buf)
				if c.NilR {
					wantN, wantErr = 0, io.EOF
				} else {
					wantN, wantErr = op.Ret, scriptErr(op.Err)
				}
			} else {
				n, err = s.Write(buf)
				if c.NilW {
					wantN, wantErr = 0, io.EOF
				} else {
					wantN, wantErr = op.Ret, scriptErr(op.Err)
				}
			}
			if n != wantN || err != wantErr {
				v.Add(P, "iosizer:passthrough", "op %d %s(len %d) = (%d,%v), wrapped stream returned (%d,%v)", i, op.K, op.N, n, err, wantN, wantErr)
				return
			}
			if n < op.N || err != nil {
				short = true
			}
			total += uint64(n)
			if got := s.TotalSize(); got != total {
				v.Add(P, "iosizer:total", "after op %d (%+v): TotalSize()=%d, sum of returned byte counts=%d", i, op, got, total)
				return
			}
		}
	})
	if short {
		v.SetNT(P)
		v.Class("short-or-error-io")
	}
}

// ---------------- iocloser ----------------

// CloserCase is an op sequence over ReadCloser / WriteCloser.
type CloserCase struct {
	Write    bool   `json:"write"`
	NilClose bool   `json:"nilclose,omitempty"`
	CloseErr string `json:"closeerr,omitempty"`
	Reenter  bool   `json:"reenter,omitempty"`  // the close function uses the wrapper itself (an owner that closes everything it holds)
	NoStream bool   `json:"nostream,omitempty"` // the wrapper is built around a nil stream: a handle that only carries the close function
	Ops      []IOOp `json:"ops"`
}

func genCloser(t *rapid.T) CloserCase {
	return CloserCase{
		Write:    rapid.Bool().Draw(t, "write"),
		NilClose: rapid.IntRange(0, 7).Draw(t, "nilclose") == 0,
		CloseErr: rapid.SampledFrom([]string{"", "", "boom", "eof"}).Draw(t, "closeerr"),
		Reenter:  rapid.IntRange(0, 3).Draw(t, "reenter") == 0,
		NoStream: rapid.IntRange(0, 9).Draw(t, "nostream") == 0,
		Ops:      rapid.SliceOfN(genIOOp([]string{"read", "read", "read", "close"}), 1, ev.Pick(20, 80)).Draw(t, "ops"),
	}
}

func checkCloser(_ *testing.T, v *ev.Verdict, c CloserCase) {
	afterClose, doubleClose := false, false
	guard(v, "iocloser:panic", func() {
		st := &scriptedStream{}
		closeCalls := 0
		var cf func() error
		var rd *iocloser.ReadCloser
		var wr *iocloser.WriteCloser
		if !c.NilClose {
			cf = func() error {
				closeCalls++
				if c.Reenter {
					// the wrapper is closed by now: its methods answer as after Close, without
					// running this function again and without touching the stream
					before := len(st.calls)
					var n int
					var err, cerr error
					if c.Write {
						n, err = wr.Write([]byte{1})
						cerr = wr.Close()
					} else {
						n, err = rd.Read(make([]byte, 1))
						cerr = rd.Close()
					}
					if n != 0 || err != io.EOF || cerr != nil || len(st.calls) != before {
						v.Add(P, "iocloser:after-close", "inside the close function the wrapper answered (%d, %v) / Close=%v and touched the stream %d times; want (0, EOF), nil, 0", n, err, cerr, len(st.calls)-before)
					}
				}
				return scriptErr(c.CloseErr)
			}
		}
		switch {
		case c.Write && c.NoStream:
			wr = iocloser.NewWriteCloser(nil, cf)
		case c.Write:
			wr = iocloser.NewWriteCloser(st, cf)
		case c.NoStream:
			rd = iocloser.NewReadCloser(nil, cf)
		default:
			rd = iocloser.NewReadCloser(st, cf)
		}
		closed := false
		for i, op := range c.Ops {
			o := op
			st.cur = &o
			ncalls := len(st.calls)
			if op.K == "close" {
				var err error
				if c.Write {
					err = wr.Close()
				} else {
					err = rd.Close()
				}
				var want error
				wantCalls := 0
				if !closed && !c.NilClose {
					want = scriptErr(c.CloseErr)
					wantCalls = 1
				}
				if closed {
					doubleClose = true
				}
				wasCalls := closeCalls
				_ = wasCalls
				if err != want {
					v.Add(P, "iocloser:close-result", "op %d Close (already closed=%v) returned %v, want %v", i, closed, err, want)
					return
				}
				if !closed {
					if closeCalls != wantCalls {
						v.Add(P, "iocloser:close-count", "op %d first Close: close function called %d times, want %d", i, closeCalls, wantCalls)
						return
					}
				}
				closed = true
				if !c.NilClose && closeCalls != 1 {
					v.Add(P, "iocloser:close-count", "after op %d: close function called %d times in total, want exactly 1", i, closeCalls)
					return
				}
				if len(st.calls) != ncalls {
					v.Add(P, "iocloser:close-touches-stream", "op %d Close touched the wrapped stream: %v", i, st.calls[ncalls:])
					return
				}
				continue
			}
			if c.NoStream && !closed {
				// nothing to read from or write to; only Close (the close function runs exactly
				// once) and the answers after Close are claimed for such a handle
				continue
			}
			buf := make([]byte, op.N)
			for j := range buf {
				buf[j] = byte(i + j)
			}
			var n int
			var err error
			seqBefore := st.seq
			if c.Write {
				n, err = wr.Write(buf)
			} else {
				n, err = rd.Read(buf)
			}
			if closed {
				afterClose = true
				if n != 0 || err != io.EOF {
					v.Add(P, "iocloser:after-close-result", "op %d after Close returned (%d,%v), want (0,EOF)", i, n, err)
					return
				}
				if len(st.calls) != ncalls {
					v.Add(P, "iocloser:after-close-touches-stream", "op %d after Close reached the wrapped stream: %v", i, st.calls[ncalls:])
					return
				}
				continue
			}
			if n != op.Ret || err != scriptErr(op.Err) {
				v.Add(P, "iocloser:passthrough", "op %d (len %d) = (%d,%v), wrapped stream returned (%d,%v)", i, op.N, n, err, op.Ret, scriptErr(op.Err))
				return
			}
			if len(st.calls) != ncalls+1 {
				v.Add(P, "iocloser:passthrough-calls", "op %d reached the wrapped stream %d times, want once", i, len(st.calls)-ncalls)
				return
			}
			if c.Write {
				if st.calls[ncalls] != fmt.Sprintf("Write(%x)", buf) {
					v.Add(P, "iocloser:passthrough-data", "op %d Write passed %s to the wrapped stream, want Write(%x)", i, st.calls[ncalls], buf)
					return
				}
			} else {
				for j := 0; j < n; j++ {
					if buf[j] != seqBefore+byte(j)+1 {
						v.Add(P, "iocloser:passthrough-data", "op %d Read returned wrong data at %d", i, j)
						return
					}
				}
			}
		}
	})
	if afterClose {
		v.Class("io-after-close")
	}
	if doubleClose {
		v.Class("double-close")
	}
	if afterClose || doubleClose {
		v.SetNT(P)
	}
}

func TestC20Seek(t *testing.T) {
	drive(t, "data of 0..300 bytes wrapped with its true size; ops Seek(off,whence) with offsets around 0, ±size, ±overflow and invalid whence, Read(len 0..20) with scripted short reads/errors of the wrapped ReaderAt; reference model = position + bounded section reader; non-trivial iff an out-of-range/invalid Seek or a scripted short read occurred; distinct by input", genSeek, checkSeek)
}

func TestC20Sizer(t *testing.T) {
	drive(t, "Read/Write sequences over a scripted stream returning generated (n<=len, err) incl. nil reader/writer; oracle: pass-through and TotalSize == sum of returned counts after every op; non-trivial iff some call was short or failed; distinct by input", genSizer, checkSizer)
}

func TestC20Closer(t *testing.T) {
	drive(t, "Read|Write/Close sequences over ReadCloser/WriteCloser with a counting close function (nil, ok, failing) and a call-logging wrapped stream; oracle: pass-through until Close, close function exactly once with its error returned, afterwards (0,EOF) without touching the stream; non-trivial iff IO after Close or a repeated Close occurred; distinct by input", genCloser, checkCloser)
}
