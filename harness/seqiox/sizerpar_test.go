package seqiox

import (
	"sync"
	"sync/atomic"
	"testing"

	"github.com/aperturerobotics/util/iosizer"
	"pgregory.net/rapid"
	"verif/harness/ev"
)

// SizerParCase: goroutines read and write through one SizeReadWriter at the same time.
type SizerParCase struct {
	Readers int   `json:"readers"`
	Writers int   `json:"writers"`
	Ops     int   `json:"ops"`
	Sizes   []int `json:"sizes"` // buffer lengths, cycled
	Short   []int `json:"short"` // bytes the wrapped stream holds back per call, cycled
}

func genSizerPar(t *rapid.T) SizerParCase {
	return SizerParCase{
		Readers: rapid.IntRange(0, 8).Draw(t, "readers"),
		Writers: rapid.IntRange(0, 8).Draw(t, "writers"),
		Ops:     rapid.SampledFrom([]int{20, 200, 2000}).Draw(t, "ops"),
		Sizes:   rapid.SliceOfN(rapid.IntRange(0, 64), 1, 5).Draw(t, "sizes"),
		Short:   rapid.SliceOfN(rapid.IntRange(0, 3), 1, 3).Draw(t, "short"),
	}
}

// countStream returns short counts; safe for concurrent use.
type countStream struct {
	c     *SizerParCase
	calls atomic.Int64
}

func (s *countStream) n(p []byte) int {
	k := int(s.calls.Add(1))
	n := len(p) - s.c.Short[k%len(s.c.Short)]
	if n < 0 {
		n = 0
	}
	return n
}
func (s *countStream) Read(p []byte) (int, error)  { return s.n(p), nil }
func (s *countStream) Write(p []byte) (int, error) { return s.n(p), nil }

// checkSizerPar: "the total equals the sum of the byte counts Read/Write returned" for
// callers that use the two directions (and each direction) from several goroutines, as
// io.ReadWriter users of a connection do; the total is read once all calls returned.
func checkSizerPar(_ *testing.T, v *ev.Verdict, c SizerParCase) {
	st := &countStream{c: &c}
	s := iosizer.NewSizeReadWriter(st, st)
	var sum atomic.Uint64
	var wg sync.WaitGroup
	var panicked atomic.Bool
	worker := func(g int, write bool) {
		defer wg.Done()
		defer func() {
			if r := recover(); r != nil {
				panicked.Store(true)
			}
		}()
		for i := 0; i < c.Ops; i++ {
			buf := make([]byte, c.Sizes[(g+i)%len(c.Sizes)])
			var n int
			if write {
				n, _ = s.Write(buf)
			} else {
				n, _ = s.Read(buf)
			}
			if n > 0 {
				sum.Add(uint64(n))
			}
		}
	}
	for g := 0; g < c.Readers; g++ {
		wg.Add(1)
		go worker(g, false)
	}
	for g := 0; g < c.Writers; g++ {
		wg.Add(1)
		go worker(g+c.Readers, true)
	}
	wg.Wait()
	if panicked.Load() {
		v.Add(P, "iosizer:panic", "Read/Write panicked under %d readers and %d writers", c.Readers, c.Writers)
	} else if got := s.TotalSize(); got != sum.Load() {
		v.Add(P, "iosizer:total", "TotalSize()=%d after all calls returned, the counts they returned sum to %d (%d readers, %d writers, %d calls each)", got, sum.Load(), c.Readers, c.Writers, c.Ops)
	}
	if c.Readers+c.Writers >= 2 {
		v.SetNT(P)
		v.Class("sizer-concurrent-callers")
	}
}

func TestC20SizerPar(t *testing.T) {
	drive(t, "0..8 reading and 0..8 writing goroutines x 20..2000 calls with buffer lengths 0..64 on one SizeReadWriter over a stream that returns short counts, with real parallelism; oracle: TotalSize() after all calls returned equals the sum of the counts they returned; non-trivial iff at least two goroutines; distinct by input", genSizerPar, checkSizerPar)
}
