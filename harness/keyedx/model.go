// Package keyedx decides C06 and C07 (keyed.Keyed / keyed.KeyedRefCount).
package keyedx

import (
	"sort"
	"time"
)

// Reference model (DESIGN.md Appendix A.3), advanced in the order in which the
// controller grants the Keyed mutex sections. It mirrors keyed.go / routine.go
// except where the properties demand otherwise: SyncKeys re-requesting a key
// cancels its pending removal (C06) and a non-restarting SetKey does not cancel a
// pending retry (C07).

const (
	stIdle = iota
	stRunning
	stFailed
	stSucceeded
)

var stNames = []string{"Idle", "Running", "Failed", "Succeeded"}

type kTok struct {
	ctxID     int // root context it was started under
	id        int
	rec       *kRec
	stale     bool // r.ctx was reset or overwritten: exit not recorded
	cancelled bool
	recorded  bool
	inst      *instance
	first     bool // first start of a record constructed for an absent key: no predecessor to wait for
}

type kTimer struct {
	id      int  // creation order
	bound   bool // a callback goroutine has been matched to this timer
	rec     *kRec
	retry   bool // retry timer (else removal timer)
	due     time.Duration
	stopped bool
}

type kRec struct {
	id       int // constructor call index
	key      int
	data     int
	beh      string
	status   int
	err      error
	tok      *kTok
	hasCh    bool
	present  bool // routines[key] == this record
	inc      int  // incarnation of the key this record belongs to
	retry    *kTimer
	remove   *kTimer
	boIdx    int
	nexts    int  // expected NextBackOff calls
	resets   int  // expected Reset calls
	viaReset bool // constructed by ResetRoutine (its first instance waits for the replaced record's)
}

type kModel struct {
	ctxID int
	dead  map[int]bool // root contexts cancelled by their owner (Keyed keeps using them)
	delay time.Duration
	bo    []int // scripted back-off per record (ms; -1 = Stop); nil = none
	behs  []string
	now   func() time.Duration

	recs    map[int]*kRec // present records by key
	all     []*kRec
	toks    []*kTok
	unbound map[int][]*kTok // per key, spawned but goroutine not yet seen
	timers  []*kTimer       // armed
	fired   []*kTimer       // fired, section not yet applied
	incs    map[int]int     // incarnation counter per key
	ctorN   map[int]int     // constructor calls per key
	byID    map[int]*kRec
	nTimers int
}

func newModel() *kModel {
	return &kModel{recs: map[int]*kRec{}, unbound: map[int][]*kTok{}, incs: map[int]int{}, ctorN: map[int]int{}, byID: map[int]*kRec{}}
}

// recID identifies the n-th record constructed for key (constructor calls for
// different keys may happen in map order, so a global index would not be stable).
func recID(key, n int) int { return key*100 + n }

func behOf(behs []string, key, n int) string { return behs[(key+n)%len(behs)] }

func (m *kModel) construct(key int) *kRec {
	n := m.ctorN[key]
	m.ctorN[key]++
	id := recID(key, n)
	r := &kRec{id: id, key: key, data: 1000 + id, beh: behOf(m.behs, key, n), present: true, inc: m.incs[key]}
	m.all = append(m.all, r)
	m.byID[id] = r
	m.recs[key] = r
	return r
}

func (m *kModel) stopTimer(t **kTimer) {
	if *t == nil {
		return
	}
	(*t).stopped = true
	for i, x := range m.timers {
		if x == *t {
			m.timers = append(m.timers[:i], m.timers[i+1:]...)
			break
		}
	}
	*t = nil
}

// CancelRoot: the owner of root context cid cancelled it; every instance derived
// from it is cancelled at once, the container keeps the context.
func (m *kModel) CancelRoot(cid int) {
	if m.dead == nil {
		m.dead = map[int]bool{}
	}
	m.dead[cid] = true
	for _, t := range m.toks {
		if t.ctxID == cid && !t.recorded {
			t.cancelled = true
		}
	}
}

// normalize mirrors "if k.ctx != nil && k.ctx.Err() != nil { k.ctx = nil }", which
// SyncKeys and the per-key reset / restart helpers perform on entry.
func (m *kModel) normalize() {
	if m.ctxID != 0 && m.dead[m.ctxID] {
		m.ctxID = 0
	}
}

func (m *kModel) cancelTok(r *kRec) {
	if r.tok != nil && !r.tok.recorded {
		r.tok.cancelled = true
	}
}

func (m *kModel) stillRunning(r *kRec) bool {
	t := r.tok
	if t == nil || t.stale || t.recorded || t.cancelled {
		return false
	}
	if t.inst != nil && t.inst.returned {
		return false // execute() has already cancelled its own context
	}
	return true
}

// start mirrors runningRoutine.start.
func (m *kModel) start(r *kRec, force bool) bool {
	if (!force && r.status == stSucceeded) || r.beh == "nilroutine" {
		return false
	}
	if !force && m.stillRunning(r) {
		return false
	}
	m.stopTimer(&r.retry)
	if r.tok != nil && !r.tok.recorded {
		r.tok.cancelled = true
		r.tok.stale = true // r.ctx is overwritten
	}
	r.status = stRunning
	r.err = nil
	t := &kTok{id: len(m.toks), rec: r, ctxID: m.ctxID, first: r.tok == nil && !r.viaReset}
	t.cancelled = m.dead[m.ctxID] // started under a dead root context: never enters the routine
	m.toks = append(m.toks, t)
	m.unbound[r.key] = append(m.unbound[r.key], t)
	r.tok = t
	r.hasCh = true
	return true
}

func (m *kModel) sortedKeys() []int {
	ks := make([]int, 0, len(m.recs))
	for k := range m.recs {
		ks = append(ks, k)
	}
	sort.Ints(ks)
	return ks
}

// SetContext mirrors setContextLocked (the per-key effects are independent, so map order does not matter).
func (m *kModel) SetContext(cid int, restart bool) {
	same := cid == m.ctxID
	if same && !restart {
		return
	}
	m.ctxID = cid
	for _, k := range m.sortedKeys() {
		r := m.recs[k]
		if same && r.status != stFailed {
			continue
		}
		if r.tok != nil && !r.tok.recorded {
			r.tok.stale = true
			r.tok.cancelled = true
		}
		started := false
		if r.status != stFailed || restart {
			if cid != 0 {
				started = m.start(r, false)
			}
		}
		if !started && r.status == stRunning {
			r.status = stIdle
		}
	}
}

// SetKey returns (data, existed).
func (m *kModel) SetKey(key int, start bool) (int, bool) {
	r, existed := m.recs[key]
	if !existed {
		r = m.construct(key)
	} else {
		m.stopTimer(&r.remove)
		// property C07: a non-restarting SetKey does not cancel the pending retry
	}
	if (!existed || start) && m.ctxID != 0 {
		m.start(r, false)
	}
	return r.data, existed
}

func (m *kModel) removeNow(r *kRec) {
	m.cancelTok(r)
	m.stopTimer(&r.retry)
	m.stopTimer(&r.remove)
	if m.recs[r.key] == r {
		delete(m.recs, r.key)
		m.incs[r.key]++
	}
	r.present = false
}

func (m *kModel) remove(r *kRec) {
	if r.remove != nil {
		return
	}
	if m.delay == 0 || r.status == stFailed {
		m.removeNow(r)
		return
	}
	m.nTimers++
	t := &kTimer{id: m.nTimers, rec: r, due: m.now() + m.delay}
	r.remove = t
	m.timers = append(m.timers, t)
}

// RemoveKey returns existed.
func (m *kModel) RemoveKey(key int) bool {
	r, existed := m.recs[key]
	if existed {
		m.remove(r)
	}
	return existed
}

// SyncKeys returns (added in order, removed as sorted set).
func (m *kModel) SyncKeys(keys []int, restart bool) (added, removed []int) {
	m.normalize()
	seen := map[int]bool{}
	for _, key := range keys {
		if seen[key] {
			continue
		}
		seen[key] = true
		r, existed := m.recs[key]
		if !existed {
			r = m.construct(key)
			added = append(added, key)
		} else {
			// property C06: a key requested again inside its release delay is kept
			m.stopTimer(&r.remove)
		}
		if (!existed || restart) && m.ctxID != 0 {
			m.start(r, false)
		}
	}
	for _, k := range m.sortedKeys() {
		if !seen[k] {
			removed = append(removed, k)
			m.remove(m.recs[k])
		}
	}
	return
}

// ResetRoutine returns (existed, reset).
func (m *kModel) ResetRoutine(key int, matched bool) (bool, bool) {
	m.normalize()
	r, existed := m.recs[key]
	if !existed {
		return false, false
	}
	if !matched {
		return true, false
	}
	m.cancelTok(r)
	prevHas := r.hasCh
	r.present = false
	// the old record's timers keep running but find themselves replaced
	nr := m.construct(key)
	nr.inc = r.inc
	nr.viaReset = true
	if m.ctxID != 0 {
		m.start(nr, false)
	} else {
		_ = prevHas
	}
	return true, true
}

// RestartRoutine returns (existed, reset).
func (m *kModel) RestartRoutine(key int, matched bool) (bool, bool) {
	m.normalize()
	r, existed := m.recs[key]
	if !existed {
		return false, false
	}
	if m.ctxID == 0 {
		return true, false
	}
	if !matched {
		return true, false
	}
	m.cancelTok(r)
	m.start(r, true)
	return true, true
}

// Exit applies the bookkeeping section of token t returning err.
func (m *kModel) Exit(t *kTok, err error) {
	if t.stale {
		return
	}
	r := t.rec
	t.recorded = true
	r.hasCh = false
	r.err = err
	if err == nil {
		r.status = stSucceeded
	} else {
		r.status = stFailed
	}
	if m.bo != nil {
		m.stopTimer(&r.retry)
		if err == nil {
			r.resets++
			r.boIdx = 0
		} else if r.present {
			r.nexts++
			d := m.bo[r.boIdx%len(m.bo)]
			r.boIdx++
			if d >= 0 {
				m.nTimers++
				tm := &kTimer{id: m.nTimers, rec: r, retry: true, due: m.now() + time.Duration(d)*time.Millisecond}
				r.retry = tm
				m.timers = append(m.timers, tm)
				m.Fire() // a zero interval has fired already: Stop can no longer recall it
			}
		}
	}
}

// Fire moves due timers to the fired list.
func (m *kModel) Fire() {
	var rest []*kTimer
	for _, t := range m.timers {
		if t.due <= m.now() {
			m.fired = append(m.fired, t)
		} else {
			rest = append(rest, t)
		}
	}
	m.timers = rest
}

func (m *kModel) retryEffective(t *kTimer) bool {
	r := t.rec
	return m.ctxID != 0 && r.present && (r.status == stFailed || r.status == stSucceeded)
}

func (m *kModel) removeEffective(t *kTimer) bool {
	r := t.rec
	return r.present && r.remove != nil
}

// BindCallback matches a newly seen callback goroutine of record r to the oldest
// fired timer of that kind and record that has no goroutine yet (callback
// goroutines are created in firing order). It returns the timer id, or 0.
func (m *kModel) BindCallback(retry bool, r *kRec) int {
	m.Fire()
	for _, t := range m.fired {
		if t.retry == retry && t.rec == r && !t.bound {
			t.bound = true
			return t.id
		}
	}
	return 0
}

// TimerSectionID applies the critical section of the callback of timer id.
func (m *kModel) TimerSectionID(retry bool, r *kRec, id int) (stale bool) {
	m.Fire()
	for i, t := range m.fired {
		if t.id != id {
			continue
		}
		m.fired = append(m.fired[:i], m.fired[i+1:]...)
		if retry && r.retry == t {
			r.retry = nil
		}
		if t.stopped {
			return true
		}
		if retry {
			if m.ctxID != 0 && r.present && (r.status == stFailed || r.status == stSucceeded) {
				m.start(r, true)
			}
			return false
		}
		if r.present && r.remove != nil {
			m.removeNow(r)
		}
		return false
	}
	return m.TimerSection(retry, r)
}

// TimerSection applies the critical section of a fired timer callback of record
// r (the hook point identifies the record). A callback whose timer was stopped
// after it had fired (Timer.Stop cannot recall it) must have no effect: the key
// was restarted, re-requested or removed again in the meantime, and acting now
// would retry before the current back-off elapsed or remove the key before its
// current release delay expired. Live callbacks of one record are preferred over
// stopped ones when both wait (they are indistinguishable at the hook point).
func (m *kModel) TimerSection(retry bool, r *kRec) (stale bool) {
	m.Fire() // a zero interval fires without any advance of the clock
	pick := -1
	for i, t := range m.fired {
		if t.retry != retry || t.rec != r {
			continue
		}
		if !t.stopped {
			pick = i
			break
		}
		if pick < 0 {
			pick = i
		}
	}
	if pick >= 0 {
		t := m.fired[pick]
		m.fired = append(m.fired[:pick], m.fired[pick+1:]...)
		if retry && r.retry == t {
			r.retry = nil
		}
		if t.stopped {
			return true
		}
	}
	if retry {
		if m.ctxID != 0 && r.present && (r.status == stFailed || r.status == stSucceeded) {
			m.start(r, true)
		}
		return false
	}
	if r.present && r.remove != nil {
		m.removeNow(r)
	}
	return false
}
