package keyedx

import (
	"context"
	"encoding/json"
	"fmt"
	"sync"
	"testing"
	"time"

	"github.com/aperturerobotics/util/backoff"
	"github.com/aperturerobotics/util/keyed"
	"pgregory.net/rapid"
	"verif/harness/ev"
	"verif/harness/sched"
)

// RetryCase: a Keyed built with the library's own back-off configuration
// (keyed.WithRetry); every key must follow its own schedule.
type RetryCase struct {
	Initial uint32 `json:"initial"` // ms
	Mult10  int    `json:"mult10"`
	Max     uint32 `json:"max"`
	AFails  int    `json:"afails"` // failures of key 0 before key 1 is added
	BFails  int    `json:"bfails"` // failures of key 1 that are timed
	Reset   bool   `json:"reset"`  // key 0 is reset (ResetRoutine) before its last timed failure
}

func genRetry(t *rapid.T) RetryCase {
	return RetryCase{
		Initial: rapid.SampledFrom([]uint32{50, 100, 500}).Draw(t, "initial"),
		Mult10:  rapid.SampledFrom([]int{15, 20, 30}).Draw(t, "mult"),
		Max:     rapid.SampledFrom([]uint32{2000, 60000}).Draw(t, "max"),
		AFails:  rapid.IntRange(0, 6).Draw(t, "afails"),
		BFails:  rapid.IntRange(1, 4).Draw(t, "bfails"),
		Reset:   rapid.Bool().Draw(t, "reset"),
	}
}

func runRetry(t *testing.T, cs RetryCase) *ev.Verdict {
	v := &ev.Verdict{}
	cj, _ := json.Marshal(cs)
	v.Canon = string(cj)
	_, berr := sched.Run(t, nil, nil, func(c *sched.Ctl) {
		conf := &backoff.Backoff{BackoffKind: backoff.BackoffKind_BackoffKind_EXPONENTIAL,
			Exponential: &backoff.Exponential{InitialInterval: cs.Initial, Multiplier: float32(cs.Mult10) / 10, MaxInterval: cs.Max}}
		ini, max := time.Duration(cs.Initial)*time.Millisecond, time.Duration(cs.Max)*time.Millisecond
		mult := float64(float32(cs.Mult10) / 10)
		next := func(cur *time.Duration) time.Duration {
			r := *cur
			if float64(*cur) >= float64(max)/mult {
				*cur = max
			} else {
				*cur = time.Duration(float64(*cur) * mult)
			}
			return r
		}
		var mu sync.Mutex
		t0 := time.Now()
		entries := map[int][]time.Duration{} // per key: virtual times at which the routine was entered
		k := keyed.NewKeyed(func(key int) (keyed.Routine, int) {
			return func(ctx context.Context) error {
				mu.Lock()
				entries[key] = append(entries[key], time.Since(t0))
				mu.Unlock()
				if ctx.Err() != nil {
					return ctx.Err()
				}
				return fmt.Errorf("key-%d-fails", key)
			}, key
		}, keyed.WithRetry[int, int](conf))
		ctx, cancel := context.WithCancel(context.Background())
		defer cancel()
		defer k.ClearContext()
		k.SetContext(ctx, false)
		// the routines fail at once, so consecutive entries of a key are exactly one back-off
		// interval apart; let enough virtual time pass for the wanted number of failures
		span := func(n int) time.Duration {
			cur, sum := ini, time.Duration(0)
			for i := 0; i < n; i++ {
				sum += next(&cur)
			}
			return sum + time.Millisecond
		}
		check := func(key int, got []time.Duration, n int, what string) bool {
			if len(got) < n+1 {
				v.Add("C07", "keyed:retry-lost", "%s: key %d was entered %d times within %v of its first run, want at least %d (every failure is retried after its own back-off interval)", what, key, len(got), span(n), n+1)
				return false
			}
			cur := ini
			for i := 0; i < n; i++ {
				want := next(&cur)
				if d := got[i+1] - got[i]; d != want {
					v.Add("C07", "keyed:wrong-back-off-interval", "%s: retry %d of key %d came %v after the failure, its own schedule says %v (initial %v, multiplier %.1f, max %v)", what, i+1, key, d, want, ini, mult, max)
					return false
				}
			}
			return true
		}
		k.SetKey(0, true)
		c.Wait()
		time.Sleep(span(cs.AFails))
		c.Wait()
		mu.Lock()
		a := append([]time.Duration(nil), entries[0]...)
		mu.Unlock()
		if !check(0, a, cs.AFails, "key 0") {
			return
		}
		// key 1 arrives late: its schedule starts from the initial interval
		k.SetKey(1, true)
		c.Wait()
		time.Sleep(span(cs.BFails))
		c.Wait()
		mu.Lock()
		bb := append([]time.Duration(nil), entries[1]...)
		mu.Unlock()
		if !check(1, bb, cs.BFails, fmt.Sprintf("key 1 (added after key 0 had failed %d times)", len(a))) {
			return
		}
		if cs.Reset {
			// a reset key gets a fresh routine record and with it a fresh schedule
			mu.Lock()
			before := len(entries[0])
			mu.Unlock()
			k.ResetRoutine(0)
			c.Wait()
			time.Sleep(span(2))
			c.Wait()
			mu.Lock()
			r := append([]time.Duration(nil), entries[0][before:]...)
			mu.Unlock()
			if !check(0, r, 2, "key 0 after ResetRoutine") {
				return
			}
		}
		v.SetNT("C07")
		v.Class("per-key-back-off-schedule")
	})
	if berr != "" && len(v.Viol) == 0 {
		v.Add("C07", "keyed:leak", "bubble ended with blocked goroutines: %s", berr)
	}
	return v
}

func TestC07Retry(t *testing.T) {
	ev.Drive(t, ev.Runner[RetryCase]{
		Prop: "C07", ReplayRuns: 3,
		Rule: "Keyed with the library's own exponential back-off configuration (keyed.WithRetry) in virtual time; key 0 fails 0..6 times, then key 1 is added and fails 1..4 times, optionally key 0 is reset; oracle: every key (and a reset key) is retried exactly when its own interval initial*multiplier^k (capped at max) has passed; non-trivial always; distinct by case",
		Gen:  genRetry,
		Run:  runRetry,
	})
}
