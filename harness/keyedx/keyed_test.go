package keyedx

import (
	"context"
	"encoding/json"
	"fmt"
	"github.com/sirupsen/logrus"
	"io"
	"sort"
	"strings"
	"sync"
	"testing"
	"time"

	"github.com/aperturerobotics/util/keyed"
	cbackoff "github.com/cenkalti/backoff/v4"
	"pgregory.net/rapid"
	"verif/harness/ev"
	"verif/harness/sched"
)

// Op is one generated operation.
type Op struct {
	K       string `json:"k"`
	Key     int    `json:"key,omitempty"`
	Start   bool   `json:"start,omitempty"`
	Keys    []int  `json:"keys,omitempty"`
	Restart bool   `json:"restart,omitempty"`
	Ctx     string `json:"ctx,omitempty"`  // new same nil
	Cond    string `json:"cond,omitempty"` // "" (no conds) | true | false | nilcond
	Out     string `json:"out,omitempty"`
	D       int    `json:"d,omitempty"`
	Pick    int    `json:"pick,omitempty"`
}

// Case is a generated configuration, history and schedule.
type Case struct {
	RefCount bool     `json:"refcount"`
	Delay    bool     `json:"delay"`
	NegDelay bool     `json:"negdelay,omitempty"` // the delay is passed as a negative duration (documented: its magnitude is used)
	Logger   bool     `json:"logger,omitempty"`   // built by the WithLogger constructor variant
	OptTwice bool     `json:"opttwice,omitempty"` // the release-delay option is given twice, the opposite setting first: the last one counts
	Behs     []string `json:"behs"`
	Backoff  []int    `json:"backoff"`
	Full     bool     `json:"full"`
	NKeys    int      `json:"nkeys"`
	Ops      []Op     `json:"ops"`
	Sched    []byte   `json:"sched"`
}

const delayMs = 100

// advance table in ms, relative to the release delay D=100 and the back-offs 10/25/50
var advTable = []int{1, 9, 10, 11, 25, 50, 99, 100, 101, 300}

func genCase(kind string) func(t *rapid.T) Case {
	return func(t *rapid.T) Case {
		var c Case
		c.NKeys = rapid.IntRange(1, ev.Pick(5, 6)).Draw(t, "nkeys")
		big := kind == "C06" && rapid.IntRange(0, 7).Draw(t, "bigkeys") == 0
		if big {
			// a key universe large enough for bulk effects (a SyncKeys that drops most of many keys)
			c.NKeys = rapid.IntRange(17, 24).Draw(t, "nkeysbig")
		}
		c.Delay = rapid.Bool().Draw(t, "delay")
		c.NegDelay = c.Delay && rapid.IntRange(0, 3).Draw(t, "negdelay") == 0
		c.OptTwice = rapid.IntRange(0, 4).Draw(t, "opttwice") == 0
		c.Logger = rapid.IntRange(0, 3).Draw(t, "logger") == 0
		var behs, kinds []string
		switch kind {
		case "C06":
			c.Full = rapid.IntRange(0, 2).Draw(t, "full6") != 0 // 1/3: timer callbacks may stay parked across the next call
			behs = []string{"untilcancel", "untilcancel", "success", "error", "errcanceled", "nilroutine"}
			kinds = []string{"setkey", "setkey", "setkey", "removekey", "removekey", "synckeys", "synckeys", "getkey", "setctx", "advance", "advance", "advance", "reset", "restart"}
		case "C06rc":
			c.Full = rapid.IntRange(0, 2).Draw(t, "full6rc") != 0 // 1/3: mutex sections of concurrent calls interleave
			c.RefCount = true
			behs = []string{"untilcancel", "untilcancel", "success", "error", "errcanceled", "nilroutine"}
			kinds = []string{"addref", "addref", "addref", "release", "release", "release", "release2", "rcremove", "getkey", "setctx", "advance", "advance", "advance"}
		default: // C07
			c.Full = rapid.IntRange(0, 2).Draw(t, "full") == 0
			c.Delay = rapid.IntRange(0, 2).Draw(t, "delay7") == 0
			behs = []string{"manual", "manual", "slowcancel", "slowcancel", "untilcancel", "error", "error", "errcanceled", "success", "nilroutine"}
			kinds = []string{"setkey", "setkey", "removekey", "synckeys", "setctx", "setctx", "restart", "restart", "reset", "reset", "restartall", "resetall", "finish", "finish", "finish", "finish", "advance", "advance", "probe", "cancelroot"}
			if rapid.IntRange(0, 3).Draw(t, "hasbo") != 0 {
				c.Backoff = rapid.SliceOfN(rapid.SampledFrom([]int{10, 10, 25, 50, -1, 0}), 1, 3).Draw(t, "bo")
				// an all-zero script would retry a failing routine forever within one instant
				allZero := true
				for _, d := range c.Backoff {
					if d != 0 {
						allZero = false
					}
				}
				if allZero {
					c.Backoff = append(c.Backoff, 10)
				}
			}
		}
		c.Behs = rapid.SliceOfN(rapid.SampledFrom(behs), 1, 4).Draw(t, "behs")
		key := rapid.IntRange(0, c.NKeys-1)
		genOp := rapid.Custom(func(t *rapid.T) Op {
			op := Op{K: rapid.SampledFrom(kinds).Draw(t, "k")}
			switch op.K {
			case "setkey":
				op.Key = key.Draw(t, "key")
				op.Start = rapid.Bool().Draw(t, "start")
			case "removekey", "getkey", "addref", "rcremove":
				op.Key = key.Draw(t, "key")
			case "synckeys":
				op.Keys = rapid.SliceOfN(key, 0, 5).Draw(t, "keys")
				if c.NKeys > 6 && rapid.Bool().Draw(t, "manykeys") {
					op.Keys = rapid.SliceOfN(key, c.NKeys/2, 2*c.NKeys).Draw(t, "keysmany")
				}
				op.Restart = rapid.Bool().Draw(t, "restart")
			case "setctx":
				op.Ctx = rapid.SampledFrom([]string{"new", "new", "same", "nil"}).Draw(t, "ctx")
				op.Restart = rapid.IntRange(0, 2).Draw(t, "restart") == 0
			case "restart", "reset":
				op.Key = key.Draw(t, "key")
				op.Cond = rapid.SampledFrom([]string{"", "", "true", "false", "nilcond"}).Draw(t, "cond")
			case "restartall", "resetall":
				op.Cond = rapid.SampledFrom([]string{"", "true", "false"}).Draw(t, "cond")
			case "finish":
				op.Out = rapid.SampledFrom([]string{"nil", "err", "err", "ctxerr"}).Draw(t, "out")
				op.Pick = rapid.IntRange(0, 5).Draw(t, "pick")
			case "advance":
				op.D = rapid.IntRange(0, len(advTable)-1).Draw(t, "d")
			case "release", "release2":
				op.Pick = rapid.IntRange(0, 7).Draw(t, "pick")
			}
			return op
		})
		c.Ops = rapid.SliceOfN(genOp, 4, ev.Pick(24, 80)).Draw(t, "ops")
		if c.Delay && !c.RefCount && rapid.IntRange(0, 2).Draw(t, "pending") == 0 {
			// construction instead of rejection: a call of another kind lands on a key whose
			// delayed removal is pending, the key is released again and the delay runs out
			k := key.Draw(t, "pkey")
			var mid Op
			switch rapid.SampledFrom(kinds).Draw(t, "pmid") {
			case "restart", "restartall":
				mid = Op{K: "restart", Key: k}
			case "reset", "resetall":
				mid = Op{K: "reset", Key: k}
			case "synckeys":
				mid = Op{K: "synckeys", Keys: []int{k}}
			case "setctx":
				mid = Op{K: "setctx", Ctx: "new", Restart: true}
			default:
				mid = Op{K: "setkey", Key: k, Start: true}
			}
			pre := []Op{{K: "setctx", Ctx: "new"}, {K: "setkey", Key: k, Start: true}, {K: "removekey", Key: k},
				{K: "advance", D: rapid.IntRange(0, 6).Draw(t, "pd1")}, mid, {K: "removekey", Key: k},
				{K: "advance", D: rapid.IntRange(6, len(advTable)-1).Draw(t, "pd2")}, {K: "advance", D: len(advTable) - 1}}
			c.Ops = append(pre, c.Ops...)
		} else if c.RefCount && !c.Full && rapid.IntRange(0, 2).Draw(t, "relrace") == 0 {
			// construction: a Release is on its way (possibly parked before the refcount mutex)
			// while the key is removed and referenced again by others
			k := key.Draw(t, "rkey")
			c.Ops = append([]Op{{K: "setctx", Ctx: "new"}, {K: "addref", Key: k}, {K: "release", Pick: 0}, {K: "rcremove", Key: k}, {K: "addref", Key: k}}, c.Ops...)
		} else if big {
			// construction: everything is requested, then most of it is dropped by one SyncKeys
			all := make([]int, c.NKeys)
			for i := range all {
				all[i] = i
			}
			few := rapid.SliceOfN(key, 0, 3).Draw(t, "few")
			c.Ops = append([]Op{{K: "setctx", Ctx: "new"}, {K: "synckeys", Keys: all}, {K: "synckeys", Keys: few},
				{K: "setkey", Key: key.Draw(t, "again"), Start: true}, {K: "advance", D: len(advTable) - 1}}, c.Ops...)
		} else if rapid.IntRange(0, 3).Draw(t, "prefix") != 0 {
			c.Ops = append([]Op{{K: "setctx", Ctx: "new"}}, c.Ops...)
		}
		c.Sched = sched.GenSchedule(t, ev.Pick(150, 500))
		return c
	}
}

type instance struct {
	id       int
	tok      *kTok
	rec      int // constructor index
	key      int
	inc      int
	ctx      context.Context
	beh      string
	release  chan string
	finished bool
	returned bool
	err      error
}

type scriptBO struct {
	mu     *sync.Mutex
	durs   []int
	idx    int
	nexts  int
	resets int
}

func (b *scriptBO) NextBackOff() time.Duration {
	b.mu.Lock()
	defer b.mu.Unlock()
	b.nexts++
	d := b.durs[b.idx%len(b.durs)]
	b.idx++
	if d < 0 {
		return cbackoff.Stop
	}
	return time.Duration(d) * time.Millisecond
}

func (b *scriptBO) Reset() {
	b.mu.Lock()
	defer b.mu.Unlock()
	b.resets++
	b.idx = 0
}

type refRec struct {
	ref      *keyed.KeyedRef[int, int]
	key      int
	released bool // model
	returned bool // AddKeyRef returned
}

var parkPoints = []string{"keyed.lock", "keyedrc.lock", "keyed.exec", "keyed.timer.retry", "keyed.timer.remove"}

func run(t *testing.T, cs Case) *ev.Verdict {
	v := &ev.Verdict{}
	canon, _ := json.Marshal(struct {
		R, D, F  bool
		ND       bool
		B        []string
		Bo       []int
		N        int
		Ops      []Op
		OptTwice bool
		Logger   bool
	}{cs.RefCount, cs.Delay, cs.Full, cs.NegDelay, cs.Behs, cs.Backoff, cs.NKeys, cs.Ops, cs.OptTwice, cs.Logger})
	v.Canon = string(canon)
	c, berr := sched.Run(t, parkPoints, cs.Sched, func(c *sched.Ctl) { body(c, cs, v) })
	v.Trace = c.Trace()
	if c.Prio {
		v.Class("priority-schedule")
	}
	if c.Mix {
		v.Class("uniform-decisions")
	}
	if c.StepLimit {
		v.Infra = "step limit exceeded"
	}
	if berr != "" && len(v.Viol) == 0 {
		v.Add("C07", "keyed:leak", "bubble ended with blocked goroutines: %s", berr)
	}
	return v
}

func sortedCopy(a []int) []int {
	b := append([]int(nil), a...)
	sort.Ints(b)
	return b
}

func eqInts(a, b []int) bool {
	if len(a) != len(b) {
		return false
	}
	for i := range a {
		if a[i] != b[i] {
			return false
		}
	}
	return true
}

func body(c *sched.Ctl, cs Case, v *ev.Verdict) {
	var hm, vm sync.Mutex
	fail := func(prop, sig, f string, a ...any) {
		vm.Lock()
		v.Add(prop, sig, f, a...)
		vm.Unlock()
	}
	t0 := time.Now()
	m := newModel()
	m.now = func() time.Duration { return time.Since(t0) }
	m.behs = cs.Behs
	if cs.Delay {
		m.delay = delayMs * time.Millisecond
	}
	if len(cs.Backoff) > 0 {
		m.bo = cs.Backoff
	}
	cleanup := false
	resultDeviations := 0
	noteResult := func(sig, f string, a ...any) { resultDeviations++ } // documented return values outside C06/C07: counted only
	var insts []*instance
	ctorCalls := 0
	ctorN := map[int]int{}
	boN := map[int]int{}
	bos := map[int]*scriptBO{}

	runInstance := func(ctx context.Context, recIdx, key int, beh string) error {
		label := c.LabelOfCaller()
		hm.Lock()
		in := &instance{id: len(insts), rec: recIdx, key: key, ctx: ctx, beh: beh, release: make(chan string, 1)}
		if r, ok := m.byID[recIdx]; ok {
			in.inc = r.inc
		}
		if strings.HasPrefix(label, "i") {
			var id int
			fmt.Sscanf(label, "i%d", &id)
			if id < len(m.toks) {
				in.tok = m.toks[id]
				in.tok.inst = in
			}
		}
		insts = append(insts, in)
		if !cleanup {
			for _, o := range insts {
				if o != in && !o.returned && o.key == key && o.inc == in.inc {
					fail("C07", "keyed:overlap", "key %d: instance %d (record %d) entered its function while instance %d (record %d) of the same key is still executing", key, in.id, recIdx, o.id, o.rec)
					break
				}
			}
			if _, known := m.byID[recIdx]; !known {
				// the constructor ran although the model's key set did not ask for it: a key-set divergence (C06)
				fail("C06", "keyed:unexpected-construction", "key %d: a routine was constructed and started although the key is present in the model (record %d unknown)", key, recIdx)
			} else if in.tok == nil {
				fail("C07", "keyed:unexpected-run", "key %d: the routine of record %d was entered by a goroutine the reference machine did not start", key, recIdx)
			} else if in.tok.rec.id != recIdx {
				fail("C07", "keyed:wrong-record", "key %d: goroutine bound to record %d runs the routine of record %d", key, in.tok.rec.id, recIdx)
			}
			if in.tok != nil && in.tok.first && ctx.Err() != nil {
				// (an instance that waits for a predecessor may find both its context and the wait
				// channel ready and enter either way; one without a predecessor looks first)
				fail("C07", "keyed:entered-after-cancel", "key %d: the first instance of record %d entered its function although its context had been cancelled before it began to execute (the key was removed or the context cleared in between)", key, recIdx)
			}
		}
		hm.Unlock()
		outcome := func(o string) error {
			switch o {
			case "nil":
				return nil
			case "ctxerr":
				if e := ctx.Err(); e != nil {
					return e
				}
			}
			return fmt.Errorf("routine-error-%d", in.id)
		}
		var err error
		switch beh {
		case "success":
		case "error":
			err = outcome("err")
		case "errcanceled":
			// fails with exactly context.Canceled on its own account (its context is live)
			err = context.Canceled
		case "untilcancel":
			<-ctx.Done()
			err = ctx.Err()
		case "slowcancel":
			<-ctx.Done()
			err = outcome(<-in.release)
		default:
			err = outcome(<-in.release)
		}
		hm.Lock()
		in.returned, in.err = true, err
		hm.Unlock()
		return err
	}

	ctor := func(key int) (keyed.Routine, int) {
		hm.Lock()
		n := ctorN[key]
		ctorN[key]++
		ctorCalls++
		hm.Unlock()
		idx := recID(key, n)
		beh := behOf(cs.Behs, key, n)
		data := 1000 + idx
		if beh == "nilroutine" {
			return nil, data
		}
		return func(ctx context.Context) error { return runInstance(ctx, idx, key, beh) }, data
	}
	var opts []keyed.Option[int, int]
	if cs.OptTwice && !cs.Delay {
		// an earlier option is overridden by a later one
		opts = append(opts, keyed.WithReleaseDelay[int, int](delayMs*time.Millisecond), nil, keyed.WithReleaseDelay[int, int](0))
	}
	if cs.Delay {
		d := delayMs * time.Millisecond
		if cs.NegDelay {
			d = -d
		}
		if cs.OptTwice {
			opts = append(opts, keyed.WithReleaseDelay[int, int](0), keyed.WithReleaseDelay[int, int](3*d))
		}
		opts = append(opts, keyed.WithReleaseDelay[int, int](d))
	}
	if m.bo != nil {
		opts = append(opts, keyed.WithBackoff[int, int](func(k int) cbackoff.BackOff {
			b := &scriptBO{mu: &hm, durs: cs.Backoff}
			hm.Lock()
			bos[recID(k, boN[k])] = b
			boN[k]++
			hm.Unlock()
			return b
		}))
	}
	type keptList struct {
		got, want []int
		who       string
	}
	var kept []keptList
	var kd *keyed.Keyed[int, int]
	var rcd *keyed.KeyedRefCount[int, int]
	lg := logrus.New()
	lg.SetOutput(io.Discard)
	switch {
	case cs.RefCount && cs.Logger:
		rcd = keyed.NewKeyedRefCountWithLogger(ctor, logrus.NewEntry(lg), opts...)
	case cs.RefCount:
		rcd = keyed.NewKeyedRefCount(ctor, opts...)
	case cs.Logger:
		kd = keyed.NewKeyedWithLogger(ctor, logrus.NewEntry(lg), opts...)
	default:
		kd = keyed.NewKeyed(ctor, opts...)
	}
	getKeys := func() []int {
		if cs.RefCount {
			return rcd.GetKeys()
		}
		return kd.GetKeys()
	}
	getKey := func(k int) (int, bool) {
		if cs.RefCount {
			return rcd.GetKey(k)
		}
		return kd.GetKey(k)
	}

	var ctxs []context.Context
	var cancels []context.CancelFunc
	ctxs = append(ctxs, nil)
	cancels = append(cancels, nil)
	pendingMut := map[string]func(){}
	var refs []*refRec
	unexpected := 0
	// non-triviality
	reRequestInDelay, doubleRelease, removeMultiRef := false, false, false
	rootCancelled := false
	supers := map[int]int{} // per key: supersessions while an instance of it is returning
	twoSupers, nonRestartDuringRetry, midExit := false, false, false

	c.AfterWait = func() {
		if cleanup {
			return
		}
		hm.Lock()
		defer hm.Unlock()
		pend := c.Pending()
		for _, tk := range pend {
			if tk.Label != "" {
				continue
			}
			switch tk.Point {
			case "keyed.exec":
				key, _ := tk.Obj.(int)
				if q := m.unbound[key]; len(q) > 0 {
					m.unbound[key] = q[1:]
					c.LabelGoid(tk.Goid(), fmt.Sprintf("i%04d", q[0].id))
				} else {
					unexpected++
					c.LabelGoid(tk.Goid(), fmt.Sprintf("x%03d", unexpected))
				}
			case "keyed.timer.retry":
				// the hook passes the record's data (1000 + record id)
				rid, tid := tk.Obj.(int)-1000, 0
				if r, ok := m.byID[rid]; ok {
					tid = m.BindCallback(true, r)
				}
				c.LabelGoid(tk.Goid(), fmt.Sprintf("tr%d.%d", rid, tid))
			case "keyed.timer.remove":
				rid, tid := tk.Obj.(int)-1000, 0
				if r, ok := m.byID[rid]; ok {
					tid = m.BindCallback(false, r)
				}
				c.LabelGoid(tk.Goid(), fmt.Sprintf("tm%d.%d", rid, tid))
			}
		}
	}

	c.OnGrant(func(tk *sched.Ticket) {
		if tk.Point != "keyed.lock" && tk.Point != "keyedrc.lock" {
			return
		}
		hm.Lock()
		defer hm.Unlock()
		if f, ok := pendingMut[tk.Label]; ok {
			for _, p := range c.Pending() {
				if p.Point == "keyed.lock" && strings.HasPrefix(p.Label, "i") {
					midExit = true
				}
			}
			f()
			delete(pendingMut, tk.Label)
			return
		}
		if tk.Point != "keyed.lock" {
			return
		}
		switch {
		case strings.HasPrefix(tk.Label, "i"):
			var id int
			fmt.Sscanf(tk.Label, "i%d", &id)
			tok := m.toks[id]
			var err error = context.Canceled
			if tok.inst != nil {
				err = tok.inst.err
			}
			m.Exit(tok, err)
		case strings.HasPrefix(tk.Label, "tr"), strings.HasPrefix(tk.Label, "tm"):
			var id, tid int
			fmt.Sscanf(tk.Label[2:], "%d.%d", &id, &tid)
			if r, ok := m.byID[id]; ok {
				m.TimerSectionID(strings.HasPrefix(tk.Label, "tr"), r, tid)
			} else {
				fail("C06", "keyed:unknown-record-timer", "a timer callback ran for a record (id %d) the model never constructed", id)
			}
		}
	})

	// instances the machine says are cancelled must really be cancelled
	checkCancelled := func(who string) { // hm held
		for _, in := range insts {
			if in.returned || in.tok == nil {
				continue
			}
			if in.tok.cancelled && in.ctx.Err() == nil {
				fail("C07", "keyed:not-cancelled", "%s returned, but instance %d of key %d (record %d), which the call removed / superseded / left without context, still has a live context", who, in.id, in.key, in.rec)
				return
			}
		}
	}

	noteSupersession := func() { // hm held, called inside a mutator's model transition (before it)
		for _, in := range insts {
			if !in.returned && in.ctx.Err() != nil {
				supers[in.key]++
				if supers[in.key] >= 2 {
					twoSupers = true
				}
			}
		}
	}

	var quiescent07 func(where string)
	quiescent := func(where string) {
		hm.Lock()
		defer hm.Unlock()
		// both parts are always evaluated: a key-set divergence (C06) must not hide an
		// instance that is left running after its key's removal (C07), and vice versa
		defer quiescent07(where)
		for _, kl := range kept {
			if !eqInts(kl.got, kl.want) {
				fail("C06", "keyed:result-overwritten", "%s: the list returned earlier by SyncKeys (%s) was %v and now reads %v", where, kl.who, kl.want, kl.got)
				return
			}
		}
		// C06: key set and data
		got := sortedCopy(getKeys())
		want := m.sortedKeys()
		if !eqInts(got, want) {
			fail("C06", "keyed:keyset", "%s: GetKeys()=%v, the requests so far imply %v", where, got, want)
			return
		}
		for k := 0; k < cs.NKeys; k++ {
			d, ex := getKey(k)
			r, mex := m.recs[k]
			if ex != mex || (ex && d != r.data) {
				md := 0
				if mex {
					md = r.data
				}
				fail("C06", "keyed:getkey", "%s: GetKey(%d)=(%d,%v), the model says (%d,%v)", where, k, d, ex, md, mex)
				return
			}
		}
		var kwd []keyed.KeyWithData[int, int]
		if cs.RefCount {
			kwd = rcd.GetKeysWithData()
		} else {
			kwd = kd.GetKeysWithData()
		}
		if len(kwd) != len(want) {
			fail("C06", "keyed:keyswithdata", "%s: GetKeysWithData returned %d entries, want %d", where, len(kwd), len(want))
			return
		}
		for _, e := range kwd {
			if r, ok := m.recs[e.Key]; !ok || r.data != e.Data {
				fail("C06", "keyed:keyswithdata", "%s: GetKeysWithData contains (%d,%d) which the model does not hold", where, e.Key, e.Data)
				return
			}
		}
		if ctorCalls != len(m.all) {
			fail("C06", "keyed:constructor-calls", "%s: the constructor was called %d times, the model implies %d", where, ctorCalls, len(m.all))
			return
		}
	}
	quiescent07 = func(where string) { // hm held
		// C07
		anyActive := map[int]bool{}
		for _, in := range insts {
			if in.returned {
				continue
			}
			anyActive[in.key] = true
			if in.tok == nil {
				continue
			}
			if in.tok.cancelled && in.ctx.Err() == nil {
				fail("C07", "keyed:not-cancelled", "%s: instance %d of key %d (record %d) still has a live context although its key was removed, its routine superseded or the context cleared", where, in.id, in.key, in.rec)
				return
			}
			if in.ctx.Err() == nil {
				r := in.tok.rec
				if !r.present || r.tok != in.tok || r.status != stRunning {
					fail("C07", "keyed:live-instance-not-wanted", "%s: instance %d of key %d has a live context but the machine says record %d is present=%v status=%s current-token=%v", where, in.id, in.key, r.id, r.present, stNames[r.status], r.tok == in.tok)
					return
				}
			}
		}
		if len(c.Pending()) == 0 {
			for _, tok := range m.toks {
				if tok.inst == nil && !tok.cancelled && !anyActive[tok.rec.key] {
					dbg := ""
					for _, t2 := range m.toks {
						if t2.rec.key == tok.rec.key {
							dbg += fmt.Sprintf(" tok%d(rec%d stale=%v canc=%v rec=%v inst=%v)", t2.id, t2.rec.id, t2.stale, t2.cancelled, t2.recorded, t2.inst != nil)
						}
					}
					for _, in := range insts {
						if in.key == tok.rec.key {
							tid := -1
							if in.tok != nil {
								tid = in.tok.id
							}
							dbg += fmt.Sprintf(" inst%d(rec%d tok%d ret=%v)", in.id, in.rec, tid, in.returned)
						}
					}
					fail("C07", "keyed:missing-run", "%s: key %d (record %d, %s): the machine started an instance (a start, restart or back-off retry) that never entered the routine [%s ] unbound=%d fired=%d", where, tok.rec.key, tok.rec.id, tok.rec.beh, dbg, len(m.unbound[tok.rec.key]), len(m.fired))
					return
				}
			}
		}
		if len(c.Pending()) == 0 {
			// every timer that is due has run its callback by now
			for _, t := range m.fired {
				if t.retry && m.retryEffective(t) {
					r := t.rec
					fail("C07", "keyed:retry-lost", "%s: key %d (record %d) returned an error, its back-off answered and the interval has passed, the key is still in the set and the context is set, but no retry happened", where, r.key, r.id)
					return
				}
				if !t.retry && m.removeEffective(t) {
					for _, in := range insts {
						if !in.returned && in.key == t.rec.key && in.ctx.Err() == nil {
							fail("C07", "keyed:not-cancelled-after-delay", "%s: key %d was removed and its release delay has expired, but instance %d of that key still has a live context", where, t.rec.key, in.id)
						}
					}
					fail("C06", "keyed:removal-lost", "%s: key %d: the release delay expired but the key was not removed", where, t.rec.key)
					return
				}
			}
			m.fired = nil
		}
		if m.bo != nil {
			for _, r := range m.all {
				if b, ok := bos[r.id]; ok && (b.nexts != r.nexts || b.resets != r.resets) {
					fail("C07", "keyed:backoff-log", "%s: back-off of record %d (key %d) saw %d NextBackOff / %d Reset calls, the machine implies %d / %d", where, r.id, r.key, b.nexts, b.resets, r.nexts, r.resets)
					return
				}
			}
		}
	}

	condOf := func(s string) (conds []func(int, int) bool, matched bool) {
		switch s {
		case "true":
			return []func(int, int) bool{func(int, int) bool { return true }}, true
		case "false":
			return []func(int, int) bool{func(int, int) bool { return false }}, false
		case "nilcond":
			return []func(int, int) bool{nil}, false
		}
		return nil, true
	}

	issue := func(i int, op Op) bool {
		label := fmt.Sprintf("o%02d", i)
		switch op.K {
		case "setkey":
			if cs.RefCount {
				return false
			}
			hm.Lock()
			var wd int
			var we bool
			pendingMut[label] = func() {
				if r, ok := m.recs[op.Key]; ok {
					if r.remove != nil {
						reRequestInDelay = true
					}
					if r.retry != nil && !op.Start {
						nonRestartDuringRetry = true
					}
				}
				if op.Start {
					noteSupersession()
				}
				wd, we = m.SetKey(op.Key, op.Start)
			}
			hm.Unlock()
			c.Go(label, func() {
				d, e := kd.SetKey(op.Key, op.Start)
				hm.Lock()
				defer hm.Unlock()
				if d != wd || e != we {
					fail("C06", "keyed:setkey-result", "SetKey(%d,%v)=(%d,%v), the model says (%d,%v)", op.Key, op.Start, d, e, wd, we)
				}
				checkCancelled("SetKey")
			})
		case "removekey":
			if cs.RefCount {
				return false
			}
			hm.Lock()
			var we bool
			pendingMut[label] = func() { we = m.RemoveKey(op.Key) }
			hm.Unlock()
			c.Go(label, func() {
				e := kd.RemoveKey(op.Key)
				hm.Lock()
				defer hm.Unlock()
				if e != we {
					fail("C06", "keyed:removekey-result", "RemoveKey(%d)=%v, the model says %v", op.Key, e, we)
				}
				checkCancelled(fmt.Sprintf("RemoveKey(%d)", op.Key))
			})
		case "synckeys":
			if cs.RefCount {
				return false
			}
			hm.Lock()
			var wa, wr []int
			pendingMut[label] = func() {
				for _, k := range op.Keys {
					if r, ok := m.recs[k]; ok {
						if r.remove != nil {
							reRequestInDelay = true
						}
						if r.retry != nil && !op.Restart {
							nonRestartDuringRetry = true
						}
					}
				}
				wa, wr = m.SyncKeys(op.Keys, op.Restart)
			}
			hm.Unlock()
			c.Go(label, func() {
				a, r := kd.SyncKeys(append([]int(nil), op.Keys...), op.Restart)
				hm.Lock()
				defer hm.Unlock()
				if !eqInts(a, wa) || !eqInts(sortedCopy(r), wr) {
					fail("C06", "keyed:synckeys-result", "SyncKeys(%v,%v)=(added %v, removed %v), the model says (added %v, removed %v)", op.Keys, op.Restart, a, sortedCopy(r), wa, wr)
				}
				// the returned lists are the caller's: later calls do not change them
				kept = append(kept, keptList{a, append([]int(nil), a...), label + " added"}, keptList{r, append([]int(nil), r...), label + " removed"})
				checkCancelled("SyncKeys")
			})
		case "getkey":
			hm.Lock()
			var wd int
			var we bool
			pendingMut[label] = func() {
				if r, ok := m.recs[op.Key]; ok {
					wd, we = r.data, true
					if r.retry != nil {
						nonRestartDuringRetry = true
					}
				}
			}
			hm.Unlock()
			c.Go(label, func() {
				d, e := getKey(op.Key)
				hm.Lock()
				defer hm.Unlock()
				if e != we || (e && d != wd) {
					fail("C06", "keyed:getkey-result", "GetKey(%d)=(%d,%v), the model says (%d,%v)", op.Key, d, e, wd, we)
				}
			})
		case "setctx":
			hm.Lock()
			cid := m.ctxID
			switch op.Ctx {
			case "new":
				ctx, cancel := context.WithCancel(context.Background())
				ctxs = append(ctxs, ctx)
				cancels = append(cancels, cancel)
				cid = len(ctxs) - 1
			case "nil":
				cid = 0
			}
			pendingMut[label] = func() {
				noteSupersession()
				m.SetContext(cid, op.Restart)
			}
			hm.Unlock()
			c.Go(label, func() {
				if cs.RefCount {
					rcd.SetContext(ctxs[cid], op.Restart)
				} else {
					kd.SetContext(ctxs[cid], op.Restart)
				}
				hm.Lock()
				defer hm.Unlock()
				checkCancelled(fmt.Sprintf("SetContext(ctx %d, restart=%v)", cid, op.Restart))
			})
		case "restart", "reset":
			hm.Lock()
			conds, matched := condOf(op.Cond)
			var we, wr bool
			pendingMut[label] = func() {
				noteSupersession()
				if op.K == "restart" {
					we, wr = m.RestartRoutine(op.Key, matched)
				} else {
					we, wr = m.ResetRoutine(op.Key, matched)
				}
			}
			hm.Unlock()
			c.Go(label, func() {
				var e, r bool
				switch {
				case op.K == "restart" && cs.RefCount:
					e, r = rcd.RestartRoutine(op.Key, conds...)
				case op.K == "restart":
					e, r = kd.RestartRoutine(op.Key, conds...)
				case cs.RefCount:
					e, r = rcd.ResetRoutine(op.Key, conds...)
				default:
					e, r = kd.ResetRoutine(op.Key, conds...)
				}
				hm.Lock()
				defer hm.Unlock()
				if e != we || r != wr {
					noteResult("keyed:restart-result", "%s(%d, cond=%q)=(%v,%v), the machine says (%v,%v)", op.K, op.Key, op.Cond, e, r, we, wr)
				}
				checkCancelled(op.K)
			})
		case "restartall", "resetall":
			hm.Lock()
			conds, matched := condOf(op.Cond)
			var wn, wt int
			pendingMut[label] = func() {
				noteSupersession()
				keys := m.sortedKeys()
				wt = len(keys)
				for _, k := range keys {
					var e, r bool
					if op.K == "restartall" {
						e, r = m.RestartRoutine(k, matched)
					} else {
						e, r = m.ResetRoutine(k, matched)
					}
					if e && r {
						wn++
					}
				}
			}
			hm.Unlock()
			c.Go(label, func() {
				var n, tot int
				switch {
				case op.K == "restartall" && cs.RefCount:
					n, tot = rcd.RestartAllRoutines(conds...)
				case op.K == "restartall":
					n, tot = kd.RestartAllRoutines(conds...)
				case cs.RefCount:
					n, tot = rcd.ResetAllRoutines(conds...)
				default:
					n, tot = kd.ResetAllRoutines(conds...)
				}
				hm.Lock()
				defer hm.Unlock()
				if n != wn || tot != wt {
					noteResult("keyed:restartall-result", "%s(cond=%q)=(%d,%d), the machine says (%d,%d)", op.K, op.Cond, n, tot, wn, wt)
				}
				checkCancelled(op.K)
			})
		case "finish":
			hm.Lock()
			var el []*instance
			for _, in := range insts {
				if !in.returned && !in.finished && (in.beh == "manual" || in.beh == "slowcancel") {
					el = append(el, in)
				}
			}
			if len(el) == 0 {
				hm.Unlock()
				return false
			}
			in := el[op.Pick%len(el)]
			in.finished = true
			supers[in.key] = 0
			hm.Unlock()
			in.release <- op.Out
		case "cancelroot":
			// the owner of the current root context cancels it directly (not through SetContext)
			hm.Lock()
			cid := m.ctxID
			if cid == 0 || m.dead[cid] {
				hm.Unlock()
				return false
			}
			m.CancelRoot(cid)
			rootCancelled = true
			hm.Unlock()
			cancels[cid]()
		case "advance":
			c.Settle(true)
			time.Sleep(time.Duration(advTable[op.D]) * time.Millisecond)
			hm.Lock()
			m.Fire()
			hm.Unlock()
		case "addref":
			if !cs.RefCount {
				return false
			}
			hm.Lock()
			rr := &refRec{key: op.Key}
			refs = append(refs, rr)
			var wd int
			var we bool
			pendingMut[label] = func() {
				if r, ok := m.recs[op.Key]; ok && r.remove != nil {
					reRequestInDelay = true
				}
				wd, we = m.SetKey(op.Key, true)
			}
			hm.Unlock()
			c.Go(label, func() {
				ref, d, e := rcd.AddKeyRef(op.Key)
				hm.Lock()
				defer hm.Unlock()
				rr.ref, rr.returned = ref, true
				if d != wd || e != we || ref == nil {
					fail("C06", "keyed:addkeyref-result", "AddKeyRef(%d)=(ref %v,%d,%v), the model says (%d,%v)", op.Key, ref != nil, d, e, wd, we)
				}
			})
		case "release", "release2":
			if !cs.RefCount {
				return false
			}
			hm.Lock()
			var el []*refRec
			for _, r := range refs {
				if r.returned && (r.released == (op.K == "release2")) {
					el = append(el, r)
				}
			}
			if len(el) == 0 {
				hm.Unlock()
				return false
			}
			rr := el[op.Pick%len(el)]
			if rr.released {
				doubleRelease = true
				// second release: a no-op, no critical section on the refcount mutex is required
			} else {
				pendingMut[label] = func() {
					rr.released = true
					live := 0
					for _, o := range refs {
						if o.key == rr.key && o.returned && !o.released {
							live++
						}
					}
					if live == 0 {
						m.RemoveKey(rr.key)
					}
				}
			}
			hm.Unlock()
			c.Go(label, func() { rr.ref.Release() })
		case "rcremove":
			if !cs.RefCount {
				return false
			}
			hm.Lock()
			var we bool
			pendingMut[label] = func() {
				n := 0
				for _, o := range refs {
					if o.key == op.Key && o.returned && !o.released {
						o.released = true
						n++
					}
				}
				if n >= 2 {
					removeMultiRef = true
				}
				we = m.RemoveKey(op.Key)
			}
			hm.Unlock()
			c.Go(label, func() {
				e := rcd.RemoveKey(op.Key)
				hm.Lock()
				defer hm.Unlock()
				if e != we {
					fail("C06", "keyed:rc-removekey-result", "KeyedRefCount.RemoveKey(%d)=%v, the model says %v", op.Key, e, we)
				}
				checkCancelled("KeyedRefCount.RemoveKey")
			})
		case "probe":
			if c.Settle(true) {
				quiescent(fmt.Sprintf("probe op %d", i))
			}
		}
		return true
	}

	for i, op := range cs.Ops {
		if len(v.Viol) > 0 || c.StepLimit {
			break
		}
		v.OpsTotal++
		if issue(i, op) {
			v.OpsEffective++
		}
		if c.Settle(cs.Full) {
			quiescent(fmt.Sprintf("after op %d (%s)", i, op.K))
		}
	}
	if len(v.Viol) == 0 && !c.StepLimit && c.Settle(true) {
		quiescent("end")
	}
	if p := c.Panics(); p != "" {
		fail("C07", "keyed:panic", "operation panicked: %s", p)
	}
	hadViol := len(v.Viol) > 0
	hm.Lock()
	cleanup = true
	hm.Unlock()
	c.PassThrough()
	if cs.RefCount {
		rcd.ClearContext()
	} else {
		kd.ClearContext()
	}
	for round := 0; round < 100; round++ {
		c.Wait()
		hm.Lock()
		n := 0
		for _, in := range insts {
			if !in.returned && !in.finished {
				in.finished = true
				in.release <- "nil"
				n++
			}
		}
		hm.Unlock()
		if n == 0 {
			break
		}
	}
	c.Wait()
	if !hadViol {
		if bl := c.Blocked(); len(bl) > 0 {
			fail("C07", "keyed:stuck-after-cleanup", "ops %v never returned", bl)
		}
		hm.Lock()
		for _, in := range insts {
			if !in.returned {
				fail("C07", "keyed:instance-survives-clear", "instance %d of key %d still executing after ClearContext and being told to finish", in.id, in.key)
				break
			}
		}
		hm.Unlock()
	}
	for _, cancel := range cancels {
		if cancel != nil {
			cancel()
		}
	}
	if reRequestInDelay || doubleRelease || removeMultiRef {
		v.SetNT("C06")
	}
	if rootCancelled {
		v.Class("root-context-cancelled-by-its-owner")
	}
	if reRequestInDelay {
		v.Class("re-request-inside-pending-removal")
	}
	if doubleRelease {
		v.Class("reference-released-twice")
	}
	if removeMultiRef {
		v.Class("removekey-with-2+-references")
	}
	if twoSupers || nonRestartDuringRetry || midExit {
		v.SetNT("C07")
	}
	if twoSupers {
		v.Class("two-supersessions-within-one-exit-latency")
	}
	if nonRestartDuringRetry {
		v.Class("non-restarting-call-while-retry-pending")
	}
	if midExit {
		v.Class("call-between-return-and-exit-bookkeeping")
	}
	if resultDeviations > 0 {
		v.Class("restart-return-value-differs-from-machine")
	}
}

func TestC06Keyed(t *testing.T) {
	ev.Drive(t, ev.Runner[Case]{
		Prop: "C06",
		Rule: "Keyed over 1..6 keys, release delay 0 or 100ms, constructor kinds {run-until-cancelled, success, error, nil routine}; sequential ops SetKey/RemoveKey/SyncKeys(dups)/GetKey/SetContext/AdvanceTime(1,9,10,11,25,50,99,100,101,300 ms) in virtual time, full settle + full read-back after every op; non-trivial iff a re-request (SetKey/SyncKeys) landed inside a pending delayed removal; distinct by hash(case)",
		Gen:  genCase("C06"),
		Run:  run,
	})
}

func TestC06RefCount(t *testing.T) {
	ev.Drive(t, ev.Runner[Case]{
		Prop: "C06",
		Rule: "KeyedRefCount: AddKeyRef/Release/second Release/RemoveKey/GetKey/SetContext/AdvanceTime, sequential in virtual time; non-trivial iff AddKeyRef landed inside a pending delayed removal, a reference was released twice, or RemoveKey hit a key with >= 2 references; distinct by hash(case)",
		Gen:  genCase("C06rc"),
		Run:  run,
	})
}

func TestC07(t *testing.T) {
	ev.Drive(t, ev.Runner[Case]{
		Prop: "C07",
		Rule: "Keyed with scripted routines (manual / slow-after-cancel / until-cancel / error / success), optional scripted per-record back-off and release delay; ops SetKey/RemoveKey/SyncKeys/SetContext/RestartRoutine/ResetRoutine(+All, conds)/Finish/AdvanceTime with mutex-section tickets left parked across calls (2/3 of cases); non-trivial iff a key saw >= 2 supersessions while one of its instances was still returning, or a non-restarting call landed while a retry timer was pending, or a call's section ran while an instance was between return and exit bookkeeping; distinct by hash(case, realised grant trace)",
		Gen:  genCase("C07"),
		Run:  run,
	})
}
