// Package routinex decides C04, C05 and C14 (RoutineContainer / StateRoutineContainer).
package routinex

import (
	"time"
)

// Reference model of DESIGN.md Appendix A.2, advanced in the order in which the
// controller grants the container's critical sections.

const (
	stIdle = iota
	stRunning
	stFailed
	stSucceeded
)

var stNames = []string{"Idle", "Running", "Failed", "Succeeded"}

type mTok struct {
	id         int
	rec        *mRec
	ctxID      int
	state      int
	gen        int
	stale      bool // stopped / restarted: its exit is not recorded
	cancelled  bool // model says its context is cancelled
	recorded   bool // exit recorded
	superseded bool // its record was replaced by SetRoutine (exit is recorded on the old record only)
	inst       *instance
	spawnStep  int
}

type mRec struct {
	gen     int // generation (creation order of records)
	fn      *fnSpec
	state   int
	status  int
	err     error
	tok     *mTok
	hasCh   bool
	current bool
	timer   *mTimer
	runs    int // expected number of spawns
}

type mTimer struct {
	id      int  // creation order
	bound   bool // a callback goroutine has been matched to this timer
	rec     *mRec
	due     time.Duration
	fired   bool
	stopped bool
}

type fnSpec struct {
	id  int
	beh string
}

type model struct {
	ctxID   int
	dead    map[int]bool // root contexts cancelled by their owner (not through the container)
	rec     *mRec
	state   int
	stateFn *fnSpec
	compare bool
	coarse  bool  // the equality function only looks at the value modulo 1000
	retry   []int // scripted back-off (ms; -1 = Stop); nil = no retry
	boIdx   int
	now     func() time.Duration

	nextGen      int
	toks         []*mTok
	removedHasCh bool      // a removed routine's exited channel is remembered
	unbound      []*mTok   // spawned by the model, goroutine not yet seen
	timers       []*mTimer // armed, not fired
	fired        []*mTimer // fired, callback's critical section not yet granted
	step         int
	nTimers      int

	// expectations produced by the last exit transition
	expectCb    []error // errors the exit callbacks must receive, in order of exits
	expectReset int
	expectNext  int
}

// normalize mirrors "if k.ctx != nil && k.ctx.Err() != nil { k.ctx = nil }", which
// WaitExited, SetRoutine/SetState and RestartRoutine perform on entry.
func (m *model) normalize() {
	if m.ctxID != 0 && m.dead[m.ctxID] {
		m.ctxID = 0
	}
}

// CancelRoot: the owner of root context cid cancelled it. Every instance derived
// from it is cancelled at once; the container notices lazily (normalize).
func (m *model) CancelRoot(cid int) {
	if m.dead == nil {
		m.dead = map[int]bool{}
	}
	m.dead[cid] = true
	for _, t := range m.toks {
		if t.ctxID == cid {
			t.cancelled = true
		}
	}
}

func (m *model) spawn(rec *mRec) *mTok {
	t := &mTok{id: len(m.toks), rec: rec, ctxID: m.ctxID, state: rec.state, gen: rec.gen, spawnStep: m.step}
	t.cancelled = m.dead[m.ctxID] // started under a dead root context: never enters the function
	m.toks = append(m.toks, t)
	m.unbound = append(m.unbound, t)
	rec.tok = t
	rec.hasCh = true
	rec.runs++
	return t
}

func (m *model) stopTimer(rec *mRec) {
	if rec.timer != nil {
		rec.timer.stopped = true
		for i, t := range m.timers {
			if t == rec.timer {
				m.timers = append(m.timers[:i], m.timers[i+1:]...)
				break
			}
		}
		rec.timer = nil
	}
}

// stop mirrors runningRoutine.stop.
func (m *model) stop(rec *mRec) {
	if rec.tok != nil && !rec.tok.recorded {
		rec.tok.stale = true
		rec.tok.cancelled = true
	}
	m.stopTimer(rec)
}

// start mirrors runningRoutine.start after a stop.
func (m *model) start(rec *mRec, force bool) bool {
	if !force && rec.status == stSucceeded {
		return false
	}
	m.stop(rec)
	rec.status = stRunning
	rec.err = nil
	m.spawn(rec)
	return true
}

// SetContext returns the documented "changed" result.
func (m *model) SetContext(cid int, restart bool) bool {
	same := cid == m.ctxID
	if same && !restart {
		return false
	}
	m.ctxID = cid
	rec := m.rec
	if rec == nil || (same && rec.status != stFailed) {
		return false
	}
	m.stop(rec)
	if rec.status != stFailed || restart {
		started := false
		if cid != 0 {
			started = m.start(rec, false)
		}
		if !started && rec.status == stRunning {
			rec.status = stIdle
		}
	}
	return true
}

// SetRoutine returns (waitReturn non-nil, reset).
func (m *model) SetRoutine(fn *fnSpec, state int) (bool, bool) {
	m.normalize()
	prev := m.rec
	chNonNil, wasReset := false, false
	if prev != nil {
		wasReset = m.ctxID != 0 && prev.status != stFailed && prev.status != stSucceeded
		chNonNil = prev.hasCh
		if prev.tok != nil && !prev.tok.recorded {
			prev.tok.cancelled = true
			prev.tok.superseded = true
		}
		prev.current = false
		m.rec = nil
	}
	// the channel the next instance waits for (kept across a removed routine)
	waitHas := chNonNil || m.removedHasCh
	m.removedHasCh = false
	if fn != nil {
		m.nextGen++
		rec := &mRec{gen: m.nextGen, fn: fn, state: state, current: true}
		m.rec = rec
		if m.ctxID != 0 {
			m.start(rec, false)
		} else {
			rec.hasCh = waitHas
		}
	} else {
		m.removedHasCh = waitHas
	}
	return chNonNil, wasReset
}

// RestartRoutine returns the documented result.
func (m *model) RestartRoutine() bool {
	m.normalize()
	rec := m.rec
	if rec == nil {
		return false
	}
	if rec.tok != nil && !rec.tok.recorded {
		rec.tok.cancelled = true
	}
	if m.ctxID == 0 {
		return false
	}
	m.start(rec, true)
	return true
}

// running mirrors getRunningLocked.
func (m *model) running() bool {
	return m.ctxID != 0 && !m.dead[m.ctxID] && m.rec != nil && m.rec.status != stFailed && m.rec.status != stSucceeded
}

// SetState returns (chNonNil, changed, reset, running).
func (m *model) SetState(st int) (bool, bool, bool, bool) {
	changed := !m.compare || st != m.state
	if m.compare && m.coarse {
		changed = st%1000 != m.state%1000
	}
	if !changed {
		return false, false, false, false
	}
	m.state = st
	ch, reset := m.updateStateRoutine()
	return ch, true, reset, m.running()
}

func (m *model) updateStateRoutine() (bool, bool) {
	var fn *fnSpec
	if m.stateFn != nil && m.state != 0 {
		fn = m.stateFn
	}
	return m.SetRoutine(fn, m.state)
}

// SetStateRoutine returns (chNonNil, reset, running).
func (m *model) SetStateRoutine(fn *fnSpec) (bool, bool, bool) {
	m.stateFn = fn
	ch, reset := m.updateStateRoutine()
	return ch, reset, m.running()
}

// Exit applies the bookkeeping critical section of instance token t returning err.
func (m *model) Exit(t *mTok, err error) {
	if t.stale {
		return
	}
	rec := t.rec
	t.recorded = true
	rec.hasCh = false
	rec.err = err
	if err == nil {
		rec.status = stSucceeded
	} else {
		rec.status = stFailed
	}
	if m.retry != nil {
		m.stopTimer(rec)
		if err == nil {
			m.expectReset++
			m.boIdx = 0
		} else if rec.current {
			m.expectNext++
			d := m.retry[m.boIdx%len(m.retry)]
			m.boIdx++
			if d >= 0 {
				m.nTimers++
				tm := &mTimer{id: m.nTimers, rec: rec, due: m.now() + time.Duration(d)*time.Millisecond}
				rec.timer = tm
				m.timers = append(m.timers, tm)
				m.Fire() // a zero interval has fired already: Stop can no longer recall it
			}
		}
	}
	m.expectCb = append(m.expectCb, err)
}

// Fire moves every timer that is due to the fired queue (in due order).
func (m *model) Fire() {
	for {
		var best *mTimer
		bi := -1
		for i, t := range m.timers {
			if t.due <= m.now() && (best == nil || t.due < best.due) {
				best, bi = t, i
			}
		}
		if best == nil {
			return
		}
		m.timers = append(m.timers[:bi], m.timers[bi+1:]...)
		best.fired = true
		m.fired = append(m.fired, best)
	}
}

// effective reports whether timer t's callback would restart its routine now.
func (m *model) effective(t *mTimer) bool {
	rec := t.rec
	return m.ctxID != 0 && rec.current && (rec.status == stFailed || rec.status == stSucceeded)
}

// TimerSection applies the critical section of a fired retry callback of record
// rec (the hook point identifies the record). A callback whose timer was stopped
// after it had fired (Timer.Stop cannot recall it) must not have any effect: the
// routine was restarted by something else in the meantime, and re-running it now
// would be a run that neither RestartRoutine, SetContext(restart) nor an elapsed
// back-off interval asked for. It reports whether the section belongs to a
// stopped timer.
func (m *model) TimerSection(rec *mRec) (stale bool) {
	m.Fire() // a zero interval fires without any advance of the clock
	pick := -1
	for i, t := range m.fired {
		if t.rec != rec {
			continue
		}
		if !t.stopped {
			pick = i
			break
		}
		if pick < 0 {
			pick = i
		}
	}
	if pick >= 0 {
		t := m.fired[pick]
		m.fired = append(m.fired[:pick], m.fired[pick+1:]...)
		if rec.timer == t {
			rec.timer = nil
		}
		if t.stopped {
			return true
		}
	}
	if m.ctxID != 0 && rec.current && (rec.status == stFailed || rec.status == stSucceeded) {
		m.start(rec, true)
	}
	return false
}

// BindCallback matches a newly seen callback goroutine of record rec to the oldest
// fired timer of that record that has no goroutine yet (callback goroutines are
// created in firing order). It returns the timer id, or 0 if the machine knows
// of no such timer.
func (m *model) BindCallback(rec *mRec) int {
	m.Fire()
	for _, t := range m.fired {
		if t.rec == rec && !t.bound {
			t.bound = true
			return t.id
		}
	}
	return 0
}

// TimerSectionID applies the critical section of the callback of timer id.
func (m *model) TimerSectionID(rec *mRec, id int) (stale bool) {
	m.Fire()
	for i, t := range m.fired {
		if t.id != id {
			continue
		}
		m.fired = append(m.fired[:i], m.fired[i+1:]...)
		if rec.timer == t {
			rec.timer = nil
		}
		if t.stopped {
			return true
		}
		if m.ctxID != 0 && rec.current && (rec.status == stFailed || rec.status == stSucceeded) {
			m.start(rec, true)
		}
		return false
	}
	return m.TimerSection(rec)
}

// returnable reports what WaitExited may return right now.
func (m *model) returnable(rinr bool) (bool, error) {
	if m.rec != nil && m.ctxID != 0 && !m.dead[m.ctxID] {
		if m.rec.status == stFailed || m.rec.status == stSucceeded {
			return true, m.rec.err
		}
		return false, nil
	}
	if rinr {
		return true, nil
	}
	return false, nil
}
