package routinex

import (
	"context"
	"encoding/json"
	"fmt"
	"strings"
	"sync"
	"testing"
	"time"

	"github.com/aperturerobotics/util/routine"
	cbackoff "github.com/cenkalti/backoff/v4"
	"pgregory.net/rapid"
	"verif/harness/ev"
	"verif/harness/sched"
)

// Op is one generated operation.
type Op struct {
	K       string `json:"k"`             // setctx setroutine setstate setstatefn restart finish advance waitexited cancel errsend probe
	Ctx     string `json:"ctx,omitempty"` // new | same | nil
	Restart bool   `json:"restart,omitempty"`
	Nil     bool   `json:"nil,omitempty"`
	Beh     string `json:"beh,omitempty"`   // manual success error untilcancel slowcancel
	State   string `json:"state,omitempty"` // fresh | same | empty
	Out     string `json:"out,omitempty"`   // nil err ctxerr
	D       int    `json:"d,omitempty"`
	RINR    bool   `json:"rinr,omitempty"`
	ErrCh   bool   `json:"errch,omitempty"`
	Pick    int    `json:"pick,omitempty"`
	Pre     bool   `json:"pre,omitempty"` // waitexited: the waiter's context is already cancelled
}

// Case is a generated history plus schedule.
type Case struct {
	State   bool   `json:"state"`             // StateRoutineContainer
	Compare bool   `json:"compare"`           // state container has an equality function
	Coarse  bool   `json:"coarse,omitempty"`  // ... which only compares the value modulo 1000 (an equivalence coarser than ==)
	OwnCtx  bool   `json:"ownctx,omitempty"`  // root contexts are of a caller-defined Context type (cancellation reaches derived contexts through a goroutine, not synchronously)
	Retry   []int  `json:"retry"`             // scripted back-off in ms (-1 = Stop); empty = no retry
	Disable string `json:"disable,omitempty"` // a later option switches retrying off again: "" | retrynil (WithRetry(nil)) | backoffnil (WithBackoff(nil))
	Full    bool   `json:"full"`              // settle fully after every op (sequential history)
	Ops     []Op   `json:"ops"`
	Sched   []byte `json:"sched"`
}

// (the last two entries are long waits, drawn only for C04 histories without retry timers)
var advTable = []int{1, 9, 10, 11, 25, 50, 100, 2500, 60000}

func genCase(prop string) func(t *rapid.T) Case {
	return func(t *rapid.T) Case {
		var c Case
		c.State = rapid.IntRange(0, 2).Draw(t, "statekind") == 0
		c.Compare = rapid.Bool().Draw(t, "compare")
		c.Coarse = c.State && c.Compare && rapid.IntRange(0, 2).Draw(t, "coarse") == 0
		c.OwnCtx = rapid.IntRange(0, 3).Draw(t, "ownctx") == 0
		behs := []string{"manual", "manual", "slowcancel", "slowcancel", "untilcancel", "success", "error"}
		kinds := []string{"setctx", "setctx", "setctx", "setroutine", "setroutine", "restart", "restart", "finish", "finish", "finish", "probe"}
		switch prop {
		case "C04":
			c.Full = rapid.IntRange(0, 3).Draw(t, "full") == 0
			kinds = append(kinds, "advance", "cancelroot")
		case "C05":
			kinds = append(kinds, "setctx", "setroutine", "advance", "cancelroot", "waitexited")
		case "C14":
			c.Full = rapid.IntRange(0, 2).Draw(t, "full14") != 0 // 1/3: timer callbacks and exits may stay parked across calls
			behs = []string{"success", "success", "error", "error", "untilcancel", "manual"}
			kinds = []string{"setctx", "setctx", "setctx", "setroutine", "setroutine", "restart", "restart", "finish", "finish", "advance", "advance", "advance", "waitexited", "waitexited", "cancel", "errsend", "probe", "cancelroot"}
		}
		if prop == "C14" || rapid.IntRange(0, 2).Draw(t, "hasretry") == 0 {
			if prop != "C14" || rapid.IntRange(0, 3).Draw(t, "retry") != 0 {
				c.Retry = rapid.SliceOfN(rapid.SampledFrom([]int{10, 10, 25, 50, -1, 0}), 1, 4).Draw(t, "bo")
				// an all-zero script would retry a failing routine forever within one instant
				allZero := true
				for _, d := range c.Retry {
					if d != 0 {
						allZero = false
					}
				}
				if allZero {
					c.Retry = append(c.Retry, 10)
				}
			}
		}
		if len(c.Retry) > 0 && rapid.IntRange(0, 5).Draw(t, "disable") == 0 {
			c.Disable = rapid.SampledFrom([]string{"retrynil", "backoffnil"}).Draw(t, "how")
		}
		if c.State {
			kinds = append(kinds, "setstate", "setstate", "setstatefn", "swapstate")
		}
		genOp := rapid.Custom(func(t *rapid.T) Op {
			op := Op{K: rapid.SampledFrom(kinds).Draw(t, "k")}
			switch op.K {
			case "setctx":
				op.Ctx = rapid.SampledFrom([]string{"new", "new", "same", "nil", "sibling"}).Draw(t, "ctx")
				op.Restart = rapid.IntRange(0, 2).Draw(t, "restart") == 0
			case "setroutine", "setstatefn":
				op.Nil = rapid.IntRange(0, 5).Draw(t, "nil") == 0
				op.Beh = rapid.SampledFrom(behs).Draw(t, "beh")
			case "setstate", "swapstate":
				op.State = rapid.SampledFrom([]string{"fresh", "fresh", "same", "empty", "equiv"}).Draw(t, "state")
			case "finish":
				op.Out = rapid.SampledFrom([]string{"nil", "err", "err", "ctxerr", "wrapcancel"}).Draw(t, "out")
				op.Pick = rapid.IntRange(0, 3).Draw(t, "pick")
			case "advance":
				op.D = rapid.IntRange(0, 6).Draw(t, "d")
				if prop == "C04" && len(c.Retry) == 0 && rapid.IntRange(0, 2).Draw(t, "long") == 0 {
					// an instance may take any time to return: nothing starts beside it meanwhile
					op.D = rapid.IntRange(7, len(advTable)-1).Draw(t, "dlong")
				}
			case "waitexited":
				op.RINR = rapid.Bool().Draw(t, "rinr")
				op.ErrCh = rapid.IntRange(0, 2).Draw(t, "errch") == 0
				op.Pre = rapid.IntRange(0, 3).Draw(t, "pre") == 0
			case "cancel", "errsend":
				op.Pick = rapid.IntRange(0, 3).Draw(t, "pick")
			}
			return op
		})
		minOps := 3
		if prop == "C14" {
			minOps = 8
		}
		c.Ops = rapid.SliceOfN(genOp, minOps, ev.Pick(24, 60)).Draw(t, "ops")
		if rapid.IntRange(0, 3).Draw(t, "prefix") != 0 {
			// construction instead of rejection: most histories start with a context and a routine
			beh := rapid.SampledFrom(behs).Draw(t, "prefixbeh")
			pre := []Op{{K: "setctx", Ctx: "new"}}
			if c.State {
				pre = append(pre, Op{K: "setstatefn", Beh: beh}, Op{K: "setstate", State: "fresh"})
			} else {
				pre = append(pre, Op{K: "setroutine", Beh: beh})
			}
			c.Ops = append(pre, c.Ops...)
		}
		c.Sched = sched.GenSchedule(t, ev.Pick(150, 500))
		return c
	}
}

type ctxKey struct{}

// ownCtx is a context type of the caller's own (think of a context joining two
// parents). The context package cannot link derived contexts to it directly:
// WithCancel(ownCtx) watches its Done channel from a goroutine, so a cancellation
// reaches the derived contexts a little later, not before cancel() returns.
type ownCtx struct {
	context.Context // Value, Deadline
	mu              sync.Mutex
	done            chan struct{}
	err             error
}

func newOwnCtx(values context.Context) (context.Context, context.CancelFunc) {
	// (values: the context Value and Deadline are forwarded to)
	c := &ownCtx{Context: values, done: make(chan struct{})}
	return c, func() {
		c.mu.Lock()
		if c.err == nil {
			c.err = context.Canceled
			close(c.done)
		}
		c.mu.Unlock()
	}
}

func (c *ownCtx) Done() <-chan struct{} { return c.done }

func (c *ownCtx) Err() error {
	c.mu.Lock()
	defer c.mu.Unlock()
	return c.err
}

type instance struct {
	id       int
	tok      *mTok
	fn       *fnSpec
	ctx      context.Context
	ctxID    int
	state    int
	release  chan string
	finished bool
	returned bool
	err      error
	enterSeq int
}

type waiter struct {
	id          int
	label       string
	rinr        bool
	cancel      context.CancelFunc
	cancelled   bool
	errCh       chan error
	sent        []error
	returned    bool
	err         error
	lastOK      bool  // returnable at the last sample
	lastErr     error // value returnable at the last sample
	samples     int
	seenBlocked bool
}

type chanRec struct {
	ch     <-chan struct{}
	before []*instance // instances executing when the call's critical section was granted
	who    string
}

// scripted back-off
type scriptBO struct {
	mu     *sync.Mutex
	durs   []int
	idx    int
	nexts  int
	resets int
}

func (b *scriptBO) NextBackOff() time.Duration {
	b.mu.Lock()
	defer b.mu.Unlock()
	b.nexts++
	d := b.durs[b.idx%len(b.durs)]
	b.idx++
	if d < 0 {
		return cbackoff.Stop
	}
	return time.Duration(d) * time.Millisecond
}

func (b *scriptBO) Reset() {
	b.mu.Lock()
	defer b.mu.Unlock()
	b.resets++
	b.idx = 0
}

var parkPoints = []string{"broadcast.lock", "broadcast.unlocked", "routine.exec", "routine.timer.retry"}

func run(t *testing.T, cs Case) *ev.Verdict {
	v := &ev.Verdict{}
	canon, _ := json.Marshal(struct {
		S, C, F bool
		Co, Own bool
		R       []int
		D       string
		Ops     []Op
	}{cs.State, cs.Compare, cs.Full, cs.Coarse, cs.OwnCtx, cs.Retry, cs.Disable, cs.Ops})
	v.Canon = string(canon)
	c, berr := sched.Run(t, parkPoints, cs.Sched, func(c *sched.Ctl) { body(c, cs, v) })
	v.Trace = c.Trace()
	if c.Prio {
		v.Class("priority-schedule")
	}
	if c.Mix {
		v.Class("uniform-decisions")
	}
	if c.StepLimit {
		v.Infra = "step limit exceeded"
	}
	if berr != "" && len(v.Viol) == 0 {
		v.Add("C14", "routine:leak", "bubble ended with blocked goroutines: %s", berr)
	}
	return v
}

func body(c *sched.Ctl, cs Case, v *ev.Verdict) {
	var hm, vm sync.Mutex
	fail := func(prop, sig, f string, a ...any) {
		vm.Lock()
		v.Add(prop, sig, f, a...)
		vm.Unlock()
	}
	t0 := time.Now()
	m := &model{compare: cs.Compare, coarse: cs.Coarse, now: func() time.Duration { return time.Since(t0) }}
	var bo *scriptBO
	if len(cs.Retry) > 0 {
		m.retry = cs.Retry
		bo = &scriptBO{mu: &hm, durs: cs.Retry}
		if cs.Disable != "" {
			m.retry = nil // options apply in order: the later nil configuration disables retrying
		}
	}
	// exit callbacks
	var cbLog [2][]error
	var opts []routine.Option
	for k := 0; k < 2; k++ {
		opts = append(opts, routine.WithExitCb(func(err error) { cbLog[k] = append(cbLog[k], err) }))
	}
	if bo != nil {
		opts = append(opts, routine.WithBackoff(bo))
		switch cs.Disable {
		case "retrynil":
			opts = append(opts, routine.WithRetry(nil))
		case "backoffnil":
			opts = append(opts, routine.WithBackoff(nil))
		}
	}
	var rc *routine.RoutineContainer
	var sc *routine.StateRoutineContainer[int]
	if cs.State {
		var cmp func(a, b int) bool
		if cs.Compare {
			cmp = func(a, b int) bool { return a == b }
			if cs.Coarse {
				cmp = func(a, b int) bool { return a%1000 == b%1000 }
			}
		}
		sc = routine.NewStateRoutineContainer[int](cmp, opts...)
	} else {
		rc = routine.NewRoutineContainer(opts...)
	}

	var insts []*instance
	var waiters []*waiter
	wByLabel := map[string]*waiter{}
	var chans []chanRec
	active := 0
	enterSeq := 0
	cleanup := false
	var ctxs []context.Context // index = ctx id (0 = nil)
	var cancels []context.CancelFunc
	ctxs = append(ctxs, nil)
	cancels = append(cancels, nil)
	roots := []context.Context{nil} // per context id: the cancellable context it wraps
	siblingCtx := false
	var fns []*fnSpec
	nextState := 0
	// what each mutator label does to the model when its critical section is granted
	pendingMut := map[string]func(){}
	supersessionsWhileReturning, overlapMut, midExitMut := 0, false, false
	sawSuccess, sawFailure, sawRetry, waitOverlap := false, false, false, false
	unexpectedSpawn := 0
	waiterWoken := false
	recByPtr := map[any]*mRec{}
	staleTimerSections := 0
	rootCancelled := false

	returningNow := func() bool { // hm held: some instance entered, cancelled and not yet returned
		for _, in := range insts {
			if !in.returned && in.ctx.Err() != nil {
				return true
			}
		}
		return false
	}

	runInstance := func(ctx context.Context, fn *fnSpec, st int) error {
		label := c.LabelOfCaller()
		hm.Lock()
		in := &instance{id: len(insts), fn: fn, ctx: ctx, state: st, release: make(chan string, 1), enterSeq: enterSeq}
		enterSeq++
		if v, ok := ctx.Value(ctxKey{}).(int); ok {
			in.ctxID = v
		}
		if strings.HasPrefix(label, "i") {
			var id int
			fmt.Sscanf(label, "i%d", &id)
			if id < len(m.toks) {
				in.tok = m.toks[id]
				in.tok.inst = in
			}
		}
		insts = append(insts, in)
		active++
		if active > 1 && !cleanup {
			var others []int
			for _, o := range insts {
				if o != in && !o.returned {
					others = append(others, o.id)
				}
			}
			fail("C04", "routine:overlap", "instance %d (fn %d) entered the managed function while instance(s) %v are still executing", in.id, fn.id, others)
		}
		if !cleanup {
			if in.tok == nil {
				fail("C14", "routine:unexpected-run", "the managed function (fn %d) was entered by a goroutine the reference machine did not start", fn.id)
			}
		}
		hm.Unlock()
		var err error
		outcome := func(o string) error {
			switch o {
			case "nil":
				return nil
			case "ctxerr":
				if e := ctx.Err(); e != nil {
					return e
				}
			case "wrapcancel":
				// an error value of the routine's own that wraps the sentinel: reported as it is
				return fmt.Errorf("routine-%d gave up: %w", in.id, context.Canceled)
			}
			return fmt.Errorf("routine-error-%d", in.id)
		}
		switch fn.beh {
		case "success":
			err = nil
		case "error":
			err = outcome("err")
		case "untilcancel":
			<-ctx.Done()
			err = ctx.Err()
		case "slowcancel":
			<-ctx.Done()
			err = outcome(<-in.release)
		default: // manual
			err = outcome(<-in.release)
		}
		hm.Lock()
		in.returned, in.err = true, err
		active--
		hm.Unlock()
		return err
	}

	mkRoutine := func(fn *fnSpec) routine.Routine {
		return func(ctx context.Context) error { return runInstance(ctx, fn, 0) }
	}
	mkStateRoutine := func(fn *fnSpec) routine.StateRoutine[int] {
		return func(ctx context.Context, st int) error { return runInstance(ctx, fn, st) }
	}

	// bind newly parked routine.exec goroutines to model tokens (creation order)
	c.AfterWait = func() {
		if cleanup {
			return
		}
		for _, tk := range c.Pending() {
			if tk.Label != "" {
				continue
			}
			switch tk.Point {
			case "routine.exec":
				hm.Lock()
				if len(m.unbound) > 0 {
					tok := m.unbound[0]
					m.unbound = m.unbound[1:]
					recByPtr[tk.Obj] = tok.rec
					hm.Unlock()
					c.LabelGoid(tk.Goid(), fmt.Sprintf("i%03d", tok.id))
				} else {
					unexpectedSpawn++
					hm.Unlock()
					c.LabelGoid(tk.Goid(), fmt.Sprintf("x%03d", unexpectedSpawn))
				}
			case "routine.timer.retry":
				// the hook passes the record whose retry timer fired
				hm.Lock()
				rec := recByPtr[tk.Obj]
				hm.Unlock()
				if rec != nil {
					hm.Lock()
					id := m.BindCallback(rec)
					hm.Unlock()
					c.LabelGoid(tk.Goid(), fmt.Sprintf("tr%03d.%d", rec.gen, id))
				} else {
					c.LabelGoid(tk.Goid(), "tr-unknown")
				}
			}
		}
	}

	c.OnGrant(func(tk *sched.Ticket) {
		if tk.Point != "broadcast.lock" {
			return
		}
		hm.Lock()
		defer hm.Unlock()
		m.step++
		if f, ok := pendingMut[tk.Label]; ok {
			if returningNow() {
				supersessionsWhileReturning++
			}
			for _, p := range c.Pending() {
				if p.Point == "broadcast.lock" && strings.HasPrefix(p.Label, "i") {
					midExitMut = true
				}
			}
			if len(pendingMut) > 1 {
				overlapMut = true
			}
			f()
			delete(pendingMut, tk.Label)
			return
		}
		if strings.HasPrefix(tk.Label, "i") {
			var id int
			fmt.Sscanf(tk.Label, "i%d", &id)
			tok := m.toks[id]
			var err error
			if tok.inst != nil {
				err = tok.inst.err
			} else {
				// never entered the function: execute() reports context.Canceled
				err = context.Canceled
			}
			wasCurrent := !tok.stale && tok.rec.current
			m.Exit(tok, err)
			if wasCurrent {
				if err == nil {
					sawSuccess = true
				} else {
					sawFailure = true
				}
			}
			return
		}
		if w, ok := wByLabel[tk.Label]; ok {
			w.samples++
			m.normalize() // WaitExited forgets a root context its owner cancelled
			w.lastOK, w.lastErr = m.returnable(w.rinr)
			return
		}
		if strings.HasPrefix(tk.Label, "tr") {
			// retry timer callback of a known record
			var gen, tid int
			if _, err := fmt.Sscanf(tk.Label, "tr%d.%d", &gen, &tid); err == nil {
				for _, rec := range recByPtr {
					if rec.gen == gen {
						before := len(m.toks)
						if m.TimerSectionID(rec, tid) {
							staleTimerSections++
						}
						if len(m.toks) > before {
							sawRetry = true
						}
						break
					}
				}
			}
		}
	})

	// Return values of the mutators are documented but not part of any listed
	// property: a deviation from the machine is counted, not reported.
	resultDeviations := 0
	noteResult := func(sig string) { resultDeviations++ }

	// model-free helpers for C04 / C05 -------------------------------------------------
	activeNow := func() []*instance { // hm held: instances executing the managed function right now
		var out []*instance
		for _, in := range insts {
			if !in.returned {
				out = append(out, in)
			}
		}
		return out
	}
	mustBeCancelled := func(who string, before []*instance) { // hm held
		for _, in := range before {
			if !in.returned && in.ctx.Err() == nil {
				fail("C05", "routine:superseded-not-cancelled", "%s returned having superseded instance %d, whose context is still live", who, in.id)
				return
			}
		}
	}
	checkChans := func(where string) { // hm held
		for _, ch := range chans {
			if !closedCh(ch.ch) {
				continue
			}
			for _, in := range ch.before {
				if !in.returned {
					fail("C04", "routine:channel-closed-early", "%s: the channel returned by %s is closed although instance %d, which was executing when that call was made, has not returned", where, ch.who, in.id)
					return
				}
			}
		}
	}

	quiescent := func(where string) {
		hm.Lock()
		defer hm.Unlock()
		checkChans(where)
		// C05(b): live instances
		var live []*instance
		anyActive := false
		for _, in := range insts {
			if in.returned {
				continue
			}
			anyActive = true
			if in.ctx.Err() == nil {
				live = append(live, in)
			}
		}
		wanted := m.ctxID != 0 && m.rec != nil // a context, a routine and (state variant) a non-empty state
		if len(live) > 1 {
			fail("C05", "routine:two-live-instances", "%s: %d instances with a live context at full quiescence", where, len(live))
			return
		}
		if len(live) == 1 {
			in := live[0]
			switch {
			case !wanted:
				fail("C05", "routine:live-instance-not-wanted", "%s: instance %d has a live context although the container has ctx=%d routine/state set=%v", where, in.id, m.ctxID, m.rec != nil)
			case in.ctxID != m.ctxID:
				fail("C05", "routine:stale-context", "%s: surviving instance %d derives from context %d, the container's current context is %d", where, in.id, in.ctxID, m.ctxID)
			case cs.State && in.state != m.state:
				fail("C05", "routine:stale-state", "%s: surviving instance %d was given state %d, the most recently stored state is %d", where, in.id, in.state, m.state)
			}
			if len(v.Viol) > 0 {
				return
			}
		}
		if cs.State {
			if got := sc.GetState(); got != m.state {
				fail("C05", "routine:getstate", "%s: GetState()=%d, model state=%d", where, got, m.state)
				return
			}
		}
		// C14: runs, callbacks, back-off log, waiters
		if !anyActive && len(c.Pending()) == 0 {
			for _, tok := range m.toks {
				if tok.inst == nil && !tok.cancelled {
					fail("C14", "routine:missing-run", "%s: the machine started an instance (token %d, record generation %d) that never entered the function", where, tok.id, tok.gen)
					return
				}
			}
		}
		if len(c.Pending()) == 0 {
			for _, t := range m.fired {
				if m.effective(t) {
					fail("C14", "routine:retry-lost", "%s: the routine failed, the back-off answered and the interval has passed (context set, routine unchanged) but no retry happened", where)
					return
				}
			}
			m.fired = nil
		}
		if bo != nil {
			if bo.nexts != m.expectNext || bo.resets != m.expectReset {
				fail("C14", "routine:backoff-log", "%s: back-off saw %d NextBackOff and %d Reset calls; the machine implies %d and %d", where, bo.nexts, bo.resets, m.expectNext, m.expectReset)
				return
			}
		}
		for k := 0; k < 2; k++ {
			if msg := compareCb(cbLog[k], m, insts); msg != "" {
				fail("C14", "routine:exit-callback", "%s: exit callback %d: %s", where, k, msg)
				return
			}
		}
		for _, w := range waiters {
			if w.returned {
				continue
			}
			ok, val := m.returnable(w.rinr)
			if m.ctxID != 0 && m.dead[m.ctxID] {
				// the owner cancelled the root context and the container has not looked at it
				// since: nothing woke the waiter, so it cannot be expected to have noticed
				ok = false
			}
			if rootCancelled && (m.rec == nil || m.ctxID == 0) {
				// "nothing is running" became true when a call noticed the dead root context;
				// the library does not broadcast for that (the waiter is woken by the exit of
				// the cancelled instance), and the property does not speak about this return
				ok = false
			}
			switch {
			case w.cancelled:
				fail("C14", "routine:waitexited-cancelled-not-returned", "%s: WaitExited #%d whose context is cancelled is still blocked", where, w.id)
			case w.errCh != nil && len(w.errCh) > 0:
				fail("C14", "routine:waitexited-errch-ignored", "%s: WaitExited #%d is blocked while an error is pending on its error channel", where, w.id)
			case ok:
				fail("C14", "routine:waitexited-blocked", "%s: WaitExited #%d (returnIfNotRunning=%v) is blocked at full quiescence although the container state (ctx=%d routine=%v status=%s) lets it return %v", where, w.id, w.rinr, m.ctxID, m.rec != nil, statusOf(m), val)
			default:
				w.seenBlocked = true
				continue
			}
			return
		}
	}

	// ---- issue operations ----
	issue := func(i int, op Op) bool {
		label := fmt.Sprintf("o%02d", i)
		switch op.K {
		case "setctx":
			hm.Lock()
			cid := m.ctxID
			switch op.Ctx {
			case "new":
				root, cancel := context.WithCancel(context.Background())
				if cs.OwnCtx {
					root, cancel = newOwnCtx(context.Background())
				}
				ctxs = append(ctxs, context.WithValue(root, ctxKey{}, len(ctxs)))
				cancels = append(cancels, cancel)
				roots = append(roots, root)
				cid = len(ctxs) - 1
			case "sibling":
				// a different context with the same cancellation scope (another WithValue wrapper
				// of the current context's root): it is a new context all the same
				if cid != 0 {
					ctxs = append(ctxs, context.WithValue(roots[cid], ctxKey{}, len(ctxs)))
					cancels = append(cancels, cancels[cid])
					roots = append(roots, roots[cid])
					if m.dead[cid] {
						m.CancelRoot(len(ctxs) - 1)
					}
					cid = len(ctxs) - 1
					siblingCtx = true
				}
			case "nil":
				cid = 0
			}
			// note: "same" while other setctx ops are in flight refers to the model context at issue time
			if m.rec != nil && m.rec.timer != nil && m.rec.status == stFailed && cid != m.ctxID && (cid == 0 || !op.Restart) {
				// don't-care (Appendix A.2): whether a pending retry survives a context change
				// without restart is not decided by the properties; such calls are not issued
				hm.Unlock()
				return false
			}
			var want bool
			var before []*instance
			ctxChanged := false
			pendingMut[label] = func() {
				before = activeNow()
				ctxChanged = cid != m.ctxID
				want = m.SetContext(cid, op.Restart)
			}
			hm.Unlock()
			c.Go(label, func() {
				var got bool
				if cs.State {
					got = sc.SetContext(ctxs[cid], op.Restart)
				} else {
					got = rc.SetContext(ctxs[cid], op.Restart)
				}
				hm.Lock()
				defer hm.Unlock()
				if got != want {
					noteResult("routine:setcontext-result")
				}
				if ctxChanged {
					// every instance that was executing derives from a replaced (or cleared) context
					mustBeCancelled(fmt.Sprintf("SetContext(ctx %d, restart=%v)", cid, op.Restart), before)
				}
			})
		case "setroutine":
			if cs.State {
				return false
			}
			hm.Lock()
			var fn *fnSpec
			if !op.Nil {
				fn = &fnSpec{id: len(fns), beh: op.Beh}
				fns = append(fns, fn)
			}
			var wantCh, wantReset bool
			var before []*instance
			pendingMut[label] = func() {
				before = activeNow()
				wantCh, wantReset = m.SetRoutine(fn, 0)
			}
			hm.Unlock()
			c.Go(label, func() {
				var r routine.Routine
				if fn != nil {
					r = mkRoutine(fn)
				}
				ch, reset := rc.SetRoutine(r)
				hm.Lock()
				defer hm.Unlock()
				if reset != wantReset || (ch != nil) != wantCh {
					noteResult("routine:setroutine-result")
				}
				if ch != nil {
					chans = append(chans, chanRec{ch, before, fmt.Sprintf("SetRoutine op %d", i)})
				}
				mustBeCancelled("SetRoutine", before)
			})
		case "setstatefn":
			if !cs.State {
				return false
			}
			hm.Lock()
			var fn *fnSpec
			if !op.Nil {
				fn = &fnSpec{id: len(fns), beh: op.Beh}
				fns = append(fns, fn)
			}
			var wantCh, wantReset, wantRunning bool
			var before []*instance
			pendingMut[label] = func() {
				before = activeNow()
				wantCh, wantReset, wantRunning = m.SetStateRoutine(fn)
			}
			hm.Unlock()
			c.Go(label, func() {
				var r routine.StateRoutine[int]
				if fn != nil {
					r = mkStateRoutine(fn)
				}
				ch, reset, running := sc.SetStateRoutine(r)
				hm.Lock()
				defer hm.Unlock()
				if reset != wantReset || (ch != nil) != wantCh || running != wantRunning {
					noteResult("routine:setstateroutine-result")
				}
				if ch != nil {
					chans = append(chans, chanRec{ch, before, fmt.Sprintf("SetStateRoutine op %d", i)})
				}
				mustBeCancelled("SetStateRoutine", before)
			})
		case "setstate":
			if !cs.State {
				return false
			}
			hm.Lock()
			var st int
			switch op.State {
			case "fresh":
				nextState++
				st = nextState
			case "same":
				st = m.state
			case "equiv":
				// a different value that the coarse equality function calls equal to the stored one
				st = m.state
				if cs.Coarse && m.state != 0 {
					st = m.state%1000 + 1000*(1+m.state/1000)
				}
			}
			var wantCh, wantChanged, wantReset, wantRunning bool
			var before []*instance
			pendingMut[label] = func() {
				before = activeNow()
				wantCh, wantChanged, wantReset, wantRunning = m.SetState(st)
			}
			hm.Unlock()
			c.Go(label, func() {
				ch, changed, reset, running := sc.SetState(st)
				hm.Lock()
				defer hm.Unlock()
				if changed != wantChanged || reset != wantReset || (ch != nil) != wantCh || running != wantRunning {
					noteResult("routine:setstate-result")
				}
				if ch != nil {
					chans = append(chans, chanRec{ch, before, fmt.Sprintf("SetState op %d", i)})
				}
				if changed {
					mustBeCancelled(fmt.Sprintf("SetState(%d)", st), before)
				}
			})
		case "swapstate":
			if !cs.State {
				return false
			}
			hm.Lock()
			var st int
			switch op.State {
			case "fresh":
				nextState++
				st = nextState
			case "same":
				st = -1 // the callback returns its argument
			}
			var before []*instance
			var wantChanged bool
			var wantState int
			pendingMut[label] = func() {
				before = activeNow()
				next := st
				if st == -1 {
					next = m.state
				}
				if next != m.state {
					_, wantChanged, _, _ = m.SetState(next)
				}
				wantState = m.state
			}
			hm.Unlock()
			c.Go(label, func() {
				seen := -2
				next, ch, changed, _, _ := sc.SwapValue(func(v int) int {
					seen = v
					if st == -1 {
						return v
					}
					return st
				})
				hm.Lock()
				defer hm.Unlock()
				_ = seen
				if ch != nil {
					chans = append(chans, chanRec{ch, before, fmt.Sprintf("SwapValue op %d", i)})
				}
				if changed != wantChanged || next != wantState {
					noteResult("routine:swapvalue-result")
				}
				if changed {
					mustBeCancelled("SwapValue", before)
				}
			})
		case "restart":
			hm.Lock()
			var want bool
			var before []*instance
			pendingMut[label] = func() {
				before = activeNow()
				want = m.RestartRoutine()
			}
			hm.Unlock()
			c.Go(label, func() {
				var got bool
				if cs.State {
					got = sc.RestartRoutine()
				} else {
					got = rc.RestartRoutine()
				}
				hm.Lock()
				defer hm.Unlock()
				if got != want {
					noteResult("routine:restart-result")
				}
				if got {
					mustBeCancelled("RestartRoutine", before)
				}
			})
		case "finish":
			hm.Lock()
			var el []*instance
			for _, in := range insts {
				if !in.returned && !in.finished && (in.fn.beh == "manual" || in.fn.beh == "slowcancel") {
					el = append(el, in)
				}
			}
			if len(el) == 0 {
				hm.Unlock()
				return false
			}
			in := el[op.Pick%len(el)]
			in.finished = true
			hm.Unlock()
			in.release <- op.Out
		case "advance":
			c.Settle(true)
			time.Sleep(time.Duration(advTable[op.D]) * time.Millisecond)
			hm.Lock()
			m.Fire()
			hm.Unlock()
		case "waitexited":
			hm.Lock()
			w := &waiter{id: len(waiters), label: "w" + label, rinr: op.RINR}
			waiters = append(waiters, w)
			wByLabel[w.label] = w
			if len(pendingMut) > 0 {
				waitOverlap = true
			}
			hm.Unlock()
			ctx, cancel := context.WithCancel(context.Background())
			w.cancel = cancel
			if op.Pre {
				w.cancelled = true
				cancel()
			}
			if op.ErrCh {
				w.errCh = make(chan error, 1)
			}
			c.Go(w.label, func() {
				var errCh <-chan error
				if w.errCh != nil {
					errCh = w.errCh
				}
				var err error
				if cs.State {
					err = sc.WaitExited(ctx, w.rinr, errCh)
				} else {
					err = rc.WaitExited(ctx, w.rinr, errCh)
				}
				hm.Lock()
				defer hm.Unlock()
				w.returned, w.err = true, err
				if cleanup {
					return
				}
				if w.seenBlocked {
					waiterWoken = true
				}
				if w.lastOK && err == w.lastErr {
					return // the value that was returnable at its last look
				}
				if err == context.Canceled && w.cancelled {
					// giving up is fine, but not instead of an exit that the call could have reported:
					// WaitExited looks at the container before it looks at its own context
					if w.samples == 0 {
						fail("C14", "routine:waitexited-never-looked", "WaitExited #%d returned context.Canceled without ever looking at the container", w.id)
					} else if w.lastOK && w.lastErr != context.Canceled && (m.rec != nil && (m.rec.status == stFailed || m.rec.status == stSucceeded)) {
						fail("C14", "routine:waitexited-cancel-instead-of-exit", "WaitExited #%d returned context.Canceled although at its last look the current instance had exited with %v", w.id, w.lastErr)
					}
					return
				}
				for _, e := range w.sent {
					if e == err {
						return
					}
				}
				fail("C14", "routine:waitexited-result", "WaitExited #%d (returnIfNotRunning=%v) returned %v; at its last look the machine allowed return=%v value=%v (cancelled=%v, errors sent=%v)", w.id, w.rinr, err, w.lastOK, w.lastErr, w.cancelled, w.sent)
			})
		case "cancel", "errsend":
			hm.Lock()
			var el []*waiter
			for _, w := range waiters {
				if w.returned || w.cancelled {
					continue
				}
				if op.K == "errsend" && (w.errCh == nil || len(w.errCh) > 0) {
					continue
				}
				el = append(el, w)
			}
			if len(el) == 0 {
				hm.Unlock()
				return false
			}
			w := el[op.Pick%len(el)]
			if op.K == "cancel" {
				w.cancelled = true
				hm.Unlock()
				w.cancel()
			} else {
				e := fmt.Errorf("errch-error-%d-%d", w.id, i)
				w.sent = append(w.sent, e)
				hm.Unlock()
				w.errCh <- e
			}
		case "cancelroot":
			// the owner of the container's current root context cancels it directly
			hm.Lock()
			cid := m.ctxID
			if cid == 0 || m.dead[cid] {
				hm.Unlock()
				return false
			}
			for id := range ctxs {
				if id != 0 && roots[id] == roots[cid] {
					m.CancelRoot(id) // every context wrapping this root
				}
			}
			rootCancelled = true
			hm.Unlock()
			cancels[cid]()
		case "probe":
			if c.Settle(true) {
				quiescent(fmt.Sprintf("probe op %d", i))
			}
		}
		return true
	}

	for i, op := range cs.Ops {
		if len(v.Viol) > 0 || c.StepLimit {
			break
		}
		v.OpsTotal++
		if issue(i, op) {
			v.OpsEffective++
		}
		if c.Settle(cs.Full) {
			quiescent(fmt.Sprintf("after op %d (%s)", i, op.K))
		}
	}
	if len(v.Viol) == 0 && !c.StepLimit && c.Settle(true) {
		quiescent("end")
	}
	if p := c.Panics(); p != "" {
		fail("C14", "routine:panic", "operation panicked: %s", p)
	}
	// ---- cleanup ----
	hadViol := len(v.Viol) > 0
	hm.Lock()
	cleanup = true
	hm.Unlock()
	c.PassThrough()
	if cs.State {
		sc.ClearContext()
	} else {
		rc.ClearContext()
	}
	for round := 0; round < 100; round++ {
		c.Wait()
		hm.Lock()
		n := 0
		for _, in := range insts {
			if !in.returned && !in.finished {
				in.finished = true
				in.release <- "nil"
				n++
			}
		}
		for _, w := range waiters {
			if !w.returned && !w.cancelled {
				w.cancelled = true
				w.cancel()
				n++
			}
		}
		hm.Unlock()
		if n == 0 {
			break
		}
	}
	for _, cancel := range cancels {
		if cancel != nil {
			cancel()
		}
	}
	c.Wait()
	if !hadViol {
		if bl := c.Blocked(); len(bl) > 0 {
			fail("C14", "routine:stuck-after-cleanup", "ops %v never returned after ClearContext, finishing every instance and cancelling every waiter", bl)
		}
		hm.Lock()
		for _, in := range insts {
			if !in.returned {
				fail("C05", "routine:instance-survives-clear", "instance %d is still executing after ClearContext and being told to finish", in.id)
				break
			}
		}
		hm.Unlock()
	}
	if supersessionsWhileReturning >= 2 {
		v.SetNT("C04")
		v.Class("two-supersessions-while-an-instance-is-returning")
	}
	if overlapMut || midExitMut {
		v.SetNT("C05")
	}
	if overlapMut {
		v.Class("overlapping-mutators")
	}
	if midExitMut {
		v.Class("mutator-between-return-and-exit-bookkeeping")
	}
	if (sawFailure && sawRetry) || (sawSuccess && sawFailure) || waitOverlap || waiterWoken {
		v.SetNT("C14")
	}
	if waiterWoken {
		v.Class("waitexited-blocked-then-returned")
	}
	if sawRetry {
		v.Class("backoff-retry-fired")
	}
	if sawSuccess && sawFailure {
		v.Class("success-and-failure")
	}
	if waitOverlap {
		v.Class("waitexited-overlapping-a-mutator")
	}
	if cs.State {
		v.Class("state-container")
	}
	if resultDeviations > 0 {
		v.Class("mutator-return-value-differs-from-machine")
	}
	if staleTimerSections > 0 {
		v.Class("callback-of-a-stopped-retry-timer-ran")
	}
	if rootCancelled {
		v.Class("root-context-cancelled-by-its-owner")
	}
	if cs.OwnCtx {
		v.Class("caller-defined-context-type")
	}
	if siblingCtx {
		v.Class("context-replaced-by-a-sibling-with-the-same-done-channel")
	}
}

func statusOf(m *model) string {
	if m.rec == nil {
		return "none"
	}
	return stNames[m.rec.status]
}

func closedCh(ch <-chan struct{}) bool {
	select {
	case <-ch:
		return true
	default:
		return false
	}
}

// compareCb checks an exit-callback log against the machine: every exit of a
// current instance must be reported exactly once with its error; exits of
// instances superseded by SetRoutine may be reported (the code does), at most once.
func compareCb(log []error, m *model, insts []*instance) string {
	mustNil, mayNil := 0, 0
	must := map[error]bool{}
	may := map[error]bool{}
	for _, t := range m.toks {
		if !t.recorded {
			continue
		}
		var err error
		if t.inst != nil {
			err = t.inst.err
		} else {
			err = context.Canceled
		}
		if err == nil || err == context.Canceled {
			if !t.superseded {
				if err == nil {
					mustNil++
				}
			}
			if err == nil {
				mayNil++
			}
			continue
		}
		if t.superseded {
			may[err] = true
		} else {
			must[err] = true
		}
	}
	seen := map[error]int{}
	nils := 0
	for _, e := range log {
		if e == nil {
			nils++
			continue
		}
		if e == context.Canceled {
			continue
		}
		seen[e]++
		if !must[e] && !may[e] {
			return fmt.Sprintf("reported %v, which is not the error of any recorded exit", e)
		}
		if seen[e] > 1 {
			return fmt.Sprintf("reported %v %d times", e, seen[e])
		}
	}
	for e := range must {
		if seen[e] != 1 {
			return fmt.Sprintf("exit of a current instance with %v was reported %d times, want once", e, seen[e])
		}
	}
	if nils < mustNil || nils > mayNil {
		return fmt.Sprintf("%d successful exits reported, the machine implies between %d and %d", nils, mustNil, mayNil)
	}
	return ""
}

func TestC04(t *testing.T) {
	ev.Drive(t, ev.Runner[Case]{
		Prop: "C04",
		Rule: "RoutineContainer (2/3) or StateRoutineContainer (1/3), optional scripted back-off; ops SetContext(new|same|nil, restart), SetRoutine/SetState/SetStateRoutine, RestartRoutine, Finish(pick entered instance, nil|err|ctx error), Probe; instances are 'manual' or 'slowcancel' (keep returning until a generated Finish) so exit latency is generated; tickets of routine.exec / Broadcast sections may stay parked across calls; non-trivial iff >= 2 supersessions were granted while an entered instance was cancelled but still returning; distinct by hash(case, realised grant trace)",
		Gen:  genCase("C04"),
		Run:  run,
	})
}

func TestC05(t *testing.T) {
	ev.Drive(t, ev.Runner[Case]{
		Prop: "C05",
		Rule: "same machine, mutators issued as concurrent goroutines (partial settle), contexts tagged with ids, unique state values; reference machine advanced in critical-section grant order; non-trivial iff two mutators overlapped or a mutator's section ran while an instance was between 'returned' and 'exit recorded'; distinct by hash(case, realised grant trace)",
		Gen:  genCase("C05"),
		Run:  run,
	})
}

func TestC14(t *testing.T) {
	ev.Drive(t, ev.Runner[Case]{
		Prop: "C14",
		Rule: "sequential histories in virtual time (full settle after each op) with prompt scripted outcomes (success, error, run-until-cancelled, manual), scripted back-off incl. Stop, AdvanceTime around the back-off deadlines, WaitExited(returnIfNotRunning, errCh) issued at random points, Cancel / errCh send; non-trivial iff the history contains a success, a failure and a fired retry, or a WaitExited overlapped a mutator; distinct by hash(case, realised grant trace)",
		Gen:  genCase("C14"),
		Run:  run,
	})
}
