package routinex

import (
	"context"
	"fmt"
	"io"
	"sync"
	"testing"
	"time"

	"github.com/aperturerobotics/util/backoff"
	"github.com/aperturerobotics/util/routine"
	cbackoff "github.com/cenkalti/backoff/v4"
	"github.com/sirupsen/logrus"
	"pgregory.net/rapid"
	"verif/harness/ev"
	"verif/harness/sched"
)

// ctorState is a state type for the VT constructors (EqualVT tolerates nil).
type ctorState struct{ n int }

func (s *ctorState) EqualVT(o *ctorState) bool {
	if s == nil || o == nil {
		return s == o
	}
	return s.n == o.n
}

// CtorCase: one of the six constructors, a back-off option and 1..2 exit callbacks; the
// routine fails Fails times and then returns nil.
type CtorCase struct {
	Ctor    int  `json:"ctor"` // 0 NewRoutineContainer 1 ...WithLogger 2 NewStateRoutineContainer 3 ...WithLogger 4 ...VT 5 ...WithLoggerVT
	Fails   int  `json:"fails"`
	Cbs     int  `json:"cbs"`
	NilOpt  bool `json:"nilopt"`  // a nil option in the list (documented: skipped)
	RetryOp bool `json:"retryop"` // back-off given through WithRetry instead of WithBackoff
}

func genCtor(t *rapid.T) CtorCase {
	return CtorCase{
		Ctor:    rapid.IntRange(0, 5).Draw(t, "ctor"),
		Fails:   rapid.IntRange(0, 3).Draw(t, "fails"),
		Cbs:     rapid.IntRange(1, 2).Draw(t, "cbs"),
		NilOpt:  rapid.Bool().Draw(t, "nilopt"),
		RetryOp: rapid.Bool().Draw(t, "retryop"),
	}
}

// runCtor: every constructor takes the same options; the behaviour they configure (C14: exit
// callbacks see every recorded exit, a failed instance is run again after its back-off) must
// not depend on which constructor built the container.
func runCtor(t *testing.T, cs CtorCase) *ev.Verdict {
	v := &ev.Verdict{}
	v.Canon = fmt.Sprintf("%+v", cs)
	const interval = 10 * time.Millisecond
	_, berr := sched.Run(t, nil, nil, func(c *sched.Ctl) {
		var mu sync.Mutex
		runs := 0
		exits := make([][]error, cs.Cbs)
		var opts []routine.Option
		if cs.NilOpt {
			opts = append(opts, nil)
		}
		for i := 0; i < cs.Cbs; i++ {
			opts = append(opts, routine.WithExitCb(func(err error) {
				mu.Lock()
				exits[i] = append(exits[i], err)
				mu.Unlock()
			}))
		}
		if cs.RetryOp {
			opts = append(opts, routine.WithRetry(&backoff.Backoff{BackoffKind: backoff.BackoffKind_BackoffKind_CONSTANT, Constant: &backoff.Constant{Interval: uint32(interval / time.Millisecond)}}))
		} else {
			opts = append(opts, routine.WithBackoff(cbackoff.NewConstantBackOff(interval)))
		}
		lg := logrus.New()
		lg.SetOutput(io.Discard)
		le := logrus.NewEntry(lg)
		body := func() error {
			mu.Lock()
			runs++
			n := runs
			mu.Unlock()
			if n <= cs.Fails {
				return fmt.Errorf("run-%d-fails", n)
			}
			return nil
		}
		ctx, cancel := context.WithCancel(context.Background())
		defer cancel()
		var clear func()
		switch cs.Ctor {
		case 0, 1:
			var rc *routine.RoutineContainer
			if cs.Ctor == 0 {
				rc = routine.NewRoutineContainer(opts...)
			} else {
				rc = routine.NewRoutineContainerWithLogger(le, opts...)
			}
			rc.SetContext(ctx, false)
			rc.SetRoutine(func(context.Context) error { return body() })
			clear = func() { rc.ClearContext() }
		case 2, 3:
			var sc *routine.StateRoutineContainer[int]
			if cs.Ctor == 2 {
				sc = routine.NewStateRoutineContainer[int](func(a, b int) bool { return a == b }, opts...)
			} else {
				sc = routine.NewStateRoutineContainerWithLogger[int](func(a, b int) bool { return a == b }, le, opts...)
			}
			sc.SetContext(ctx, false)
			sc.SetStateRoutine(func(context.Context, int) error { return body() })
			sc.SetState(1)
			clear = func() { sc.ClearContext() }
		default:
			var sc *routine.StateRoutineContainer[*ctorState]
			if cs.Ctor == 4 {
				sc = routine.NewStateRoutineContainerVT[*ctorState](opts...)
			} else {
				sc = routine.NewStateRoutineContainerWithLoggerVT[*ctorState](le, opts...)
			}
			sc.SetContext(ctx, false)
			sc.SetStateRoutine(func(context.Context, *ctorState) error { return body() })
			sc.SetState(&ctorState{n: 1})
			clear = func() { sc.ClearContext() }
		}
		// every retry is due one interval after the failure before it
		time.Sleep(time.Duration(cs.Fails+2) * interval)
		c.Wait()
		mu.Lock()
		gotRuns := runs
		var gotExits [][]error
		for _, e := range exits {
			gotExits = append(gotExits, append([]error(nil), e...))
		}
		mu.Unlock()
		if gotRuns != cs.Fails+1 {
			v.Add("C14", "routine:missing-run", "constructor %d: the routine failed %d times and was run %d times within %d back-off intervals, want %d runs", cs.Ctor, cs.Fails, gotRuns, cs.Fails+2, cs.Fails+1)
		} else {
			for i, e := range gotExits {
				if len(e) != cs.Fails+1 {
					v.Add("C14", "routine:exit-callback-count", "constructor %d: exit callback %d saw %d exits of %d", cs.Ctor, i, len(e), cs.Fails+1)
					break
				}
				if e[len(e)-1] != nil {
					v.Add("C14", "routine:exit-callback-error", "constructor %d: exit callback %d saw %v for the run that returned nil", cs.Ctor, i, e[len(e)-1])
					break
				}
			}
		}
		clear()
	})
	if berr != "" && len(v.Viol) == 0 {
		v.Add("C14", "routine:leak", "bubble ended with blocked goroutines: %s", berr)
	}
	if cs.Fails > 0 {
		v.SetNT("C14")
	}
	v.Class(fmt.Sprintf("constructor-%d", cs.Ctor))
	return v
}

func TestC14Ctors(t *testing.T) {
	ev.Drive(t, ev.Runner[CtorCase]{
		Prop: "C14", ReplayRuns: 1,
		Rule: "one of the six RoutineContainer / StateRoutineContainer constructors (plain, WithLogger, VT, WithLoggerVT) with a constant back-off (WithBackoff or WithRetry), 1..2 exit callbacks and optionally a nil option; the routine fails 0..3 times, then returns nil; virtual time; oracle: it is run exactly fails+1 times within fails+2 intervals and every exit callback sees every exit, the last one nil; non-trivial iff it fails at least once; distinct by case",
		Gen:  genCtor,
		Run:  runCtor,
	})
}
