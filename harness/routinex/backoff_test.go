package routinex

import (
	"context"
	"encoding/json"
	"fmt"
	"sync"
	"testing"
	"time"

	"github.com/aperturerobotics/util/backoff"
	"github.com/aperturerobotics/util/routine"
	"pgregory.net/rapid"
	"verif/harness/ev"
	"verif/harness/sched"
)

// BoCase drives a RoutineContainer configured with the library's own back-off
// configuration (routine.WithRetry) in virtual time.
type BoCase struct {
	Expo    bool     `json:"expo"`
	Initial uint32   `json:"initial"`          // ms, 0 = default (800)
	Mult10  int      `json:"mult10"`           // multiplier * 10, 0 = default (1.8)
	Max     uint32   `json:"max"`              // ms, 0 = default (20000)
	Const   uint32   `json:"const"`            // ms, 0 = default (5000)
	NoKind  bool     `json:"nokind,omitempty"` // backoff_kind left at its zero value (documented: defaults to exponential)
	Decoy   int      `json:"decoy"`            // > 0: a second container built from the same Option value fails this many times meanwhile
	Steps   []BoStep `json:"steps"`
}

// BoStep: let the running instance run for Run minutes, then finish it.
type BoStep struct {
	RunMin int  `json:"run_min"` // how long the instance runs before it returns (virtual minutes)
	OK     bool `json:"ok"`      // returns nil instead of an error
}

func genBo(t *rapid.T) BoCase {
	c := BoCase{Expo: rapid.Bool().Draw(t, "expo")}
	c.Initial = rapid.SampledFrom([]uint32{0, 100, 500, 1000}).Draw(t, "initial")
	c.Mult10 = rapid.SampledFrom([]int{0, 10, 15, 20}).Draw(t, "mult")
	c.Max = rapid.SampledFrom([]uint32{0, 1000, 5000, 60000}).Draw(t, "max")
	c.Const = rapid.SampledFrom([]uint32{0, 50, 1000}).Draw(t, "const")
	step := rapid.Custom(func(t *rapid.T) BoStep {
		return BoStep{RunMin: rapid.SampledFrom([]int{0, 0, 1, 16, 40}).Draw(t, "run"), OK: rapid.IntRange(0, 4).Draw(t, "ok") == 0}
	})
	c.Steps = rapid.SliceOfN(step, 1, ev.Pick(6, 12)).Draw(t, "steps")
	c.NoKind = c.Expo && rapid.IntRange(0, 3).Draw(t, "nokind") == 0
	if rapid.IntRange(0, 2).Draw(t, "hasdecoy") == 0 {
		c.Decoy = rapid.IntRange(1, 8).Draw(t, "decoy")
	}
	return c
}

func runBo(t *testing.T, cs BoCase) *ev.Verdict {
	v := &ev.Verdict{}
	cj, _ := json.Marshal(cs)
	v.Canon = string(cj)
	_, berr := sched.Run(t, nil, nil, func(c *sched.Ctl) {
		conf := &backoff.Backoff{}
		lo, hi := time.Duration(0), time.Duration(0)
		// reference schedule of the configured back-off (randomisation factor 0): the k-th
		// consecutive failure since the last success is retried after next()
		var cur, ini0, max0 time.Duration
		mult := 1.0
		resetRef := func() { cur = ini0 }
		nextRef := func() time.Duration {
			r := cur
			if !cs.Expo {
				return r
			}
			if float64(cur) >= float64(max0)/mult {
				cur = max0
			} else {
				cur = time.Duration(float64(cur) * mult)
			}
			return r
		}
		if cs.Expo {
			conf.BackoffKind = backoff.BackoffKind_BackoffKind_EXPONENTIAL
			if cs.NoKind {
				conf.BackoffKind = backoff.BackoffKind_BackoffKind_UNKNOWN
			}
			conf.Exponential = &backoff.Exponential{InitialInterval: cs.Initial, Multiplier: float32(cs.Mult10) / 10, MaxInterval: cs.Max}
			ini, mx := cs.Initial, cs.Max
			if ini == 0 {
				ini = 800
			}
			if mx == 0 {
				mx = 20000
			}
			lo, hi = time.Duration(ini)*time.Millisecond, time.Duration(mx)*time.Millisecond
			ini0, max0 = lo, hi
			mult = float64(float32(cs.Mult10) / 10)
			if cs.Mult10 == 0 {
				mult = float64(float32(1.8))
			}
			if hi < lo {
				hi = lo
			}
		} else {
			conf.BackoffKind = backoff.BackoffKind_BackoffKind_CONSTANT
			conf.Constant = &backoff.Constant{Interval: cs.Const}
			iv := cs.Const
			if iv == 0 {
				iv = 5000
			}
			lo = time.Duration(iv) * time.Millisecond
			hi = lo
			ini0, max0 = lo, lo
		}
		var mu sync.Mutex
		entered := 0
		var release []chan bool
		resetRef()
		opt := routine.WithRetry(conf)
		rc := routine.NewRoutineContainer(opt)
		ctx, cancel := context.WithCancel(context.Background())
		defer cancel()
		decoyRuns := 0
		if cs.Decoy > 0 {
			// the same Option value configures a second container whose routine fails a few
			// times: its retries must not influence the first container's schedule
			decoy := routine.NewRoutineContainer(opt)
			decoy.SetRoutine(func(ctx context.Context) error {
				mu.Lock()
				decoyRuns++
				n := decoyRuns
				mu.Unlock()
				if n > cs.Decoy {
					<-ctx.Done()
				}
				if ctx.Err() != nil {
					return ctx.Err()
				}
				return fmt.Errorf("decoy-fail")
			})
			decoy.SetContext(ctx, false)
			defer decoy.ClearContext()
		}
		rc.SetRoutine(func(ctx context.Context) error {
			mu.Lock()
			entered++
			id := entered
			ch := make(chan bool, 1)
			release = append(release, ch)
			mu.Unlock()
			select {
			case ok := <-ch:
				if ok {
					return nil
				}
				return fmt.Errorf("fail-%d", id)
			case <-ctx.Done():
				return ctx.Err()
			}
		})
		rc.SetContext(ctx, false)
		c.Wait()
		count := func() int { mu.Lock(); defer mu.Unlock(); return entered }
		want := 1
		if count() != want {
			v.Add("C14", "routine:missing-run", "the routine was not started by SetContext (entered %d times)", count())
			return
		}
		sawLong, sawReset := false, false
		for i, st := range cs.Steps {
			if st.RunMin > 0 {
				time.Sleep(time.Duration(st.RunMin) * time.Minute)
				c.Wait()
				if st.RunMin >= 16 {
					sawLong = true
				}
			}
			mu.Lock()
			ch := release[len(release)-1]
			mu.Unlock()
			ch <- st.OK
			c.Wait()
			if st.OK {
				sawReset = true
				// a success is never retried ...
				time.Sleep(hi + time.Second)
				c.Wait()
				if count() != want {
					v.Add("C14", "routine:unexpected-run", "step %d: the routine returned nil and was run again without RestartRoutine", i)
					return
				}
				// ... until RestartRoutine
				if !rc.RestartRoutine() {
					v.Add("C14", "routine:restart-result", "step %d: RestartRoutine returned false", i)
					return
				}
				c.Wait()
				want++
				if count() != want {
					v.Add("C14", "routine:missing-run", "step %d: RestartRoutine did not run the routine again", i)
					return
				}
				// after a success the back-off starts over: the next interval is the initial one again
				resetRef()
				continue
			}
			// failure: no retry before the configured interval has passed, a retry once it has
			iv := nextRef()
			if iv > time.Millisecond {
				time.Sleep(iv - time.Millisecond)
				c.Wait()
				if count() != want {
					v.Add("C14", "routine:unexpected-run", "step %d: the routine was retried %v after its failure, before its back-off interval %v had passed (decoy container: %v)", i, iv-time.Millisecond, iv, cs.Decoy)
					return
				}
			}
			time.Sleep(2 * time.Millisecond)
			c.Wait()
			want++
			if count() != want {
				v.Add("C14", "routine:retry-lost", "step %d: the routine returned an error (after running %d min) and was not run again when its back-off interval %v had passed (retry configured: %s, no elapsed-time limit; decoy container sharing the option: %v); entered %d times, want %d", i, st.RunMin, iv, map[bool]string{true: "exponential", false: "constant"}[cs.Expo], cs.Decoy, count(), want)
				return
			}
		}
		if sawLong || sawReset {
			v.SetNT("C14")
		}
		if sawLong {
			v.Class("instance-ran-longer-than-15-minutes-before-failing")
		}
		if cs.Decoy > 0 {
			v.Class("second-container-from-the-same-option")
		}
		rc.ClearContext()
		c.Wait()
	})
	if berr != "" && len(v.Viol) == 0 {
		v.Add("C14", "routine:leak", "bubble ended with blocked goroutines: %s", berr)
	}
	return v
}

func TestC14Backoff(t *testing.T) {
	ev.Drive(t, ev.Runner[BoCase]{
		Prop: "C14", ReplayRuns: 3,
		Rule: "RoutineContainer with the library's own back-off configuration (routine.WithRetry: exponential {initial, multiplier, max; defaults via 0} or constant) in virtual time; each step lets the running instance run 0/1/16/40 virtual minutes, then makes it fail or succeed; optionally a second, always failing container built from the same Option value; oracle: the k-th consecutive failure since the last success is retried exactly when the configured interval (initial*multiplier^(k-1) capped at max, or the constant) has passed, a success only by RestartRoutine; non-trivial iff an instance ran >= 16 minutes before failing or a success reset the back-off; distinct by case",
		Gen:  genBo,
		Run:  runBo,
	})
}
