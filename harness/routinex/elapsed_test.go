package routinex

import (
	"context"
	"fmt"
	"sync"
	"testing"
	"time"

	"github.com/aperturerobotics/util/backoff"
	"github.com/aperturerobotics/util/routine"
	"pgregory.net/rapid"
	"verif/harness/ev"
	"verif/harness/sched"
)

// ElapsedCase: an exponential back-off with an elapsed-time limit; the routine always fails.
type ElapsedCase struct {
	Initial uint32 `json:"initial"` // ms
	Max     uint32 `json:"max"`     // ms
	Limit   uint32 `json:"limit"`   // max_elapsed_time, ms
	RunMs   int    `json:"run_ms"`  // how long every instance runs before it fails
}

func genElapsed(t *rapid.T) ElapsedCase {
	return ElapsedCase{
		Initial: rapid.SampledFrom([]uint32{50, 100, 500}).Draw(t, "initial"),
		Max:     rapid.SampledFrom([]uint32{1000, 5000}).Draw(t, "max"),
		Limit:   rapid.SampledFrom([]uint32{300, 2000, 10000, 60000}).Draw(t, "limit"),
		RunMs:   rapid.SampledFrom([]int{0, 0, 10, 700}).Draw(t, "run"),
	}
}

// runElapsed: with a limit on the elapsed time the retries of a routine that keeps failing
// come to an end ("run again after each back-off interval ... and by nothing else"): some
// time after the limit the number of runs no longer changes, and before the limit the
// routine was retried at least once (when the first interval fits).
func runElapsed(t *testing.T, cs ElapsedCase) *ev.Verdict {
	v := &ev.Verdict{}
	v.Canon = fmt.Sprintf("%+v", cs)
	_, berr := sched.Run(t, nil, nil, func(c *sched.Ctl) {
		conf := &backoff.Backoff{BackoffKind: backoff.BackoffKind_BackoffKind_EXPONENTIAL,
			Exponential: &backoff.Exponential{InitialInterval: cs.Initial, Multiplier: 1.5, MaxInterval: cs.Max, MaxElapsedTime: cs.Limit}}
		var mu sync.Mutex
		runs := 0
		rc := routine.NewRoutineContainer(routine.WithRetry(conf))
		ctx, cancel := context.WithCancel(context.Background())
		defer cancel()
		rc.SetRoutine(func(ctx context.Context) error {
			mu.Lock()
			runs++
			n := runs
			mu.Unlock()
			if cs.RunMs > 0 {
				select {
				case <-time.After(time.Duration(cs.RunMs) * time.Millisecond):
				case <-ctx.Done():
					return ctx.Err()
				}
			}
			return fmt.Errorf("fail-%d", n)
		})
		rc.SetContext(ctx, false)
		count := func() int { mu.Lock(); defer mu.Unlock(); return runs }
		// every interval is at most Max (times the randomisation of at most 1.5), every run takes
		// RunMs: well after the limit the chain of retries must have ended
		settle := time.Duration(cs.Limit)*time.Millisecond + 4*(time.Duration(cs.Max)*2+time.Duration(cs.RunMs))*time.Millisecond + time.Second
		time.Sleep(settle)
		c.Wait()
		c1 := count()
		time.Sleep(20 * time.Duration(cs.Max) * time.Millisecond)
		c.Wait()
		c2 := count()
		if c2 != c1 {
			v.Add("C14", "routine:unexpected-run", "max_elapsed_time %dms: the routine was still being retried %v after its first failure (%d runs, then %d)", cs.Limit, settle, c1, c2)
		} else if cs.Limit >= 4*cs.Initial+uint32(2*cs.RunMs) && c1 < 2 {
			v.Add("C14", "routine:retry-lost", "max_elapsed_time %dms, initial interval %dms: the failing routine was never retried (%d run)", cs.Limit, cs.Initial, c1)
		}
		rc.ClearContext()
		c.Wait()
	})
	if berr != "" && len(v.Viol) == 0 {
		v.Add("C14", "routine:leak", "bubble ended with blocked goroutines: %s", berr)
	}
	v.SetNT("C14")
	v.Class("back-off-with-elapsed-time-limit")
	return v
}

func TestC14Elapsed(t *testing.T) {
	ev.Drive(t, ev.Runner[ElapsedCase]{
		Prop: "C14", ReplayRuns: 1,
		Rule: "RoutineContainer with an exponential back-off (initial 50..500 ms, max 1..5 s) limited by max_elapsed_time 0.3..60 s; the routine fails every time (after 0..700 ms); virtual time; oracle: well after the limit the number of runs no longer changes, and it was retried at least once when the limit leaves room for it; non-trivial always; distinct by case",
		Gen:  genElapsed,
		Run:  runElapsed,
	})
}
