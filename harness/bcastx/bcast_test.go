// Package bcastx decides C03 (broadcast.Broadcast).
package bcastx

import (
	"context"
	"encoding/json"
	"fmt"
	"strings"
	"sync"
	"testing"
	"time"

	"github.com/aperturerobotics/util/broadcast"
	"pgregory.net/rapid"
	"verif/harness/ev"
	"verif/harness/sched"
)

const P = "C03"

// Op is one generated operation.
type Op struct {
	K       string `json:"k"`                 // wait update spurious peek cancel
	Ge      int    `json:"ge,omitempty"`      // wait: predicate state >= Ge
	ErrAt   int    `json:"errat,omitempty"`   // wait: predicate returns an error when state == ErrAt (0 = never)
	ErrDone bool   `json:"errdone,omitempty"` // wait: the failing predicate also reports done=true
	ErrKind int    `json:"errkind,omitempty"` // wait: 0 private error, 1 context.DeadlineExceeded, 2 an error wrapping context.Canceled, 3 context.Canceled itself
	Via     string `json:"via,omitempty"`     // update: hold | try | async
	Peek    string `json:"peek,omitempty"`    // update: "" | before | after (take a wait channel inside the same section)
	Pre     bool   `json:"pre,omitempty"`     // wait: context already cancelled
	Dl      int    `json:"dl,omitempty"`      // wait: deadline context (1 = already expired, 2 = expires after 10ms of virtual time, 3 = deadline passed but not cancelled)
	Twice   bool   `json:"twice,omitempty"`   // update: broadcast(); getWaitCh(); broadcast() inside one critical section
	Panic   bool   `json:"panic,omitempty"`   // update: the callback panics after its broadcast (the caller recovers)
	Pick    int    `json:"pick,omitempty"`
	NilPred bool   `json:"nilpred,omitempty"` // wait: no predicate at all (documented: an error, never nil)
	PredAct bool   `json:"predact,omitempty"` // wait: the predicate's first evaluation takes the wait channel, broadcasts and takes it again
}

// Case is a generated history plus schedule.
type Case struct {
	Ops   []Op   `json:"ops"`
	Sched []byte `json:"sched"`
}

func genCase(t *rapid.T) Case {
	kinds := []string{"wait", "wait", "wait", "update", "update", "update", "spurious", "peek", "cancel", "advance"}
	genOp := rapid.Custom(func(t *rapid.T) Op {
		op := Op{K: rapid.SampledFrom(kinds).Draw(t, "k")}
		switch op.K {
		case "wait":
			op.Ge = rapid.IntRange(0, 5).Draw(t, "ge")
			if rapid.IntRange(0, 2).Draw(t, "haserr") == 0 {
				op.ErrAt = rapid.IntRange(0, 4).Draw(t, "errat")
				op.ErrDone = rapid.Bool().Draw(t, "errdone")
				op.ErrKind = rapid.SampledFrom([]int{0, 0, 0, 1, 2, 3}).Draw(t, "errkind")
				if op.ErrAt == 0 {
					op.ErrAt = -1 // fails at the initial state 0
				}
			}
			op.Pre = rapid.IntRange(0, 11).Draw(t, "pre") == 0
			op.PredAct = rapid.IntRange(0, 4).Draw(t, "predact") == 0
			op.NilPred = rapid.IntRange(0, 11).Draw(t, "nilpred") == 0
			if rapid.IntRange(0, 5).Draw(t, "hasdl") == 0 {
				op.Dl = rapid.IntRange(1, 3).Draw(t, "dl")
			}
		case "update":
			op.Twice = rapid.IntRange(0, 5).Draw(t, "twice") == 0
			op.Panic = rapid.IntRange(0, 9).Draw(t, "panic") == 0
			op.Via = rapid.SampledFrom([]string{"hold", "hold", "try", "async"}).Draw(t, "via")
			op.Peek = rapid.SampledFrom([]string{"", "", "before", "after"}).Draw(t, "peek")
		case "cancel":
			op.Pick = rapid.IntRange(0, 5).Draw(t, "pick")
		}
		return op
	})
	return Case{
		Ops:   rapid.SliceOfN(genOp, 2, ev.Pick(16, 40)).Draw(t, "ops"),
		Sched: sched.GenSchedule(t, ev.Pick(120, 400)),
	}
}

type waiter struct {
	id        int
	label     string
	op        Op
	cancel    context.CancelFunc
	cancelled bool
	returned  bool
	err       error
	lastTrue  bool  // last predicate evaluation returned true
	lastErr   error // error returned by the last predicate evaluation
	evals     int
	deadline  bool // its context has a deadline 10ms of virtual time after it was issued
	expired   bool
}

type handed struct {
	ch  <-chan struct{}
	gen int
	who string
}

// errState maps the generated ErrAt to the state value at which the predicate fails (-1 means 0).
func errState(e int) int {
	if e < 0 {
		return 0
	}
	return e
}

// overdue reports a deadline in the past without being done.
type overdue struct{ context.Context }

func (o overdue) Deadline() (time.Time, bool) { return time.Now().Add(-time.Second), true }

func closed(ch <-chan struct{}) bool {
	select {
	case <-ch:
		return true
	default:
		return false
	}
}

func run(t *testing.T, cs Case) *ev.Verdict {
	v := &ev.Verdict{}
	canon, _ := json.Marshal(cs.Ops)
	v.Canon = string(canon)
	c, berr := sched.Run(t, []string{"broadcast.lock", "broadcast.unlocked"}, cs.Sched, func(c *sched.Ctl) { body(c, cs, v) })
	v.Trace = c.Trace()
	if c.Prio {
		v.Class("priority-schedule")
	}
	if c.Mix {
		v.Class("uniform-decisions")
	}
	if c.StepLimit {
		v.Infra = "step limit exceeded"
	}
	if berr != "" && len(v.Viol) == 0 {
		v.Add(P, "broadcast:leak", "bubble ended with blocked goroutines: %s", berr)
	}
	return v
}

func body(c *sched.Ctl, cs Case, v *ev.Verdict) {
	var b broadcast.Broadcast
	var hm, vm sync.Mutex
	fail := func(sig, f string, a ...any) {
		vm.Lock()
		v.Add(P, sig, f, a...)
		vm.Unlock()
	}
	// guarded by b (only touched inside critical sections) ...
	state, bcount := 0, 0
	// ... and harness bookkeeping guarded by hm
	var waiters []*waiter
	var chans []handed
	updLabels := map[string]bool{}
	window, cancelRace, cleanup, errDuringCancel, panicked, nilCb := false, false, false, false, false, false

	c.OnGrant(func(tk *sched.Ticket) {
		if tk.Point == "broadcast.lock" && updLabels[tk.Label] {
			for _, p := range c.Pending() {
				if p.Point == "broadcast.unlocked" && strings.HasPrefix(p.Label, "w") {
					window = true
				}
			}
		}
	})

	errFor := func(id, kind int) error {
		switch kind {
		case 1:
			return context.DeadlineExceeded
		case 2:
			return fmt.Errorf("pred-error-%d: %w", id, context.Canceled)
		case 3:
			return context.Canceled
		}
		return fmt.Errorf("pred-error-%d", id)
	}

	quiescent := func(where string) {
		hm.Lock()
		defer hm.Unlock()
		for _, h := range chans {
			want := bcount > h.gen
			if got := closed(h.ch); got != want {
				fail("broadcast:channel-generation", "%s: wait channel taken by %s after %d broadcasts is closed=%v, but %d broadcasts have been performed in total (want closed=%v)", where, h.who, h.gen, got, bcount, want)
				return
			}
		}
		for _, w := range waiters {
			if w.returned {
				continue
			}
			if w.cancelled {
				fail("broadcast:cancelled-not-returned", "%s: Wait #%d whose context is cancelled is still blocked at full quiescence", where, w.id)
				return
			}
			if state >= w.op.Ge || (w.op.ErrAt != 0 && state == errState(w.op.ErrAt)) {
				fail("broadcast:blocked-while-satisfied", "%s: Wait #%d (state>=%d, errAt=%d) is blocked at full quiescence although state=%d (predicate evaluated %d times)", where, w.id, w.op.Ge, w.op.ErrAt, state, w.evals)
				return
			}
		}
	}

	for i, op := range cs.Ops {
		if len(v.Viol) > 0 || c.StepLimit {
			break
		}
		v.OpsTotal++
		eff := true
		switch op.K {
		case "wait":
			hm.Lock()
			w := &waiter{id: len(waiters), op: op, label: fmt.Sprintf("w%02d", i)}
			waiters = append(waiters, w)
			hm.Unlock()
			ctx, cancel := context.WithCancel(context.Background())
			switch op.Dl {
			case 1:
				// a deadline that has already passed: Err() is DeadlineExceeded, Wait must still say Canceled
				ctx, cancel = context.WithDeadline(context.Background(), time.Now().Add(-time.Millisecond))
				w.cancelled = true
			case 2:
				ctx, cancel = context.WithTimeout(context.Background(), 10*time.Millisecond)
				w.deadline = true
			case 3:
				// its deadline has passed but nobody has cancelled it (yet): what every deadline
				// context looks like between the deadline instant and the run of its timer
				ctx = overdue{ctx}
			}
			w.cancel = cancel
			if op.Pre {
				cancel()
				w.cancelled = true
			}
			c.Go(w.label, func() {
				if w.op.NilPred {
					// no predicate can have returned true: whatever Wait does, it does not return nil
					err := b.Wait(ctx, nil)
					hm.Lock()
					w.returned, w.err = true, err
					hm.Unlock()
					if err == nil {
						fail("broadcast:nil-without-true", "Wait #%d was given no predicate and returned nil", w.id)
					}
					return
				}
				err := b.Wait(ctx, func(broadcast func(), getWaitCh func() <-chan struct{}) (bool, error) {
					w.evals++
					w.lastTrue, w.lastErr = false, nil
					if w.op.PredAct && w.evals == 1 {
						// the predicate uses both functions it is handed, like any other critical section
						ch := getWaitCh()
						hm.Lock()
						chans = append(chans, handed{ch, bcount, w.label + "(predicate, before its broadcast)"})
						hm.Unlock()
						broadcast()
						hm.Lock()
						bcount++
						hm.Unlock()
						ch = getWaitCh()
						hm.Lock()
						chans = append(chans, handed{ch, bcount, w.label + "(predicate, after its broadcast)"})
						hm.Unlock()
					}
					if w.op.ErrAt != 0 && state == errState(w.op.ErrAt) {
						w.lastErr = errFor(w.id, w.op.ErrKind)
						return w.op.ErrDone, w.lastErr
					}
					w.lastTrue = state >= w.op.Ge
					return w.lastTrue, nil
				})
				hm.Lock()
				defer hm.Unlock()
				w.returned, w.err = true, err
				switch {
				case err == nil:
					if w.lastErr != nil {
						fail("broadcast:error-swallowed", "Wait #%d returned nil although its predicate's last evaluation returned the error %v", w.id, w.lastErr)
					} else if !w.lastTrue {
						fail("broadcast:nil-without-true", "Wait #%d returned nil but its predicate's last evaluation did not return true (evaluations=%d)", w.id, w.evals)
					}
				case w.lastErr != nil:
					// the predicate's last evaluation failed: that error, and nothing else, is the result
					if err != w.lastErr {
						fail("broadcast:error-changed", "Wait #%d returned %v, its predicate's last evaluation returned the error %v (context cancelled: %v)", w.id, err, w.lastErr, w.cancelled)
					}
					if w.cancelled && !cleanup {
						errDuringCancel = true
					}
				case err == context.Canceled:
					if !w.cancelled {
						fail("broadcast:spurious-cancel", "Wait #%d returned context.Canceled although its context was never cancelled", w.id)
					}
					if w.evals > 0 && !cleanup {
						cancelRace = true
					}
				default:
					fail("broadcast:error-changed", "Wait #%d returned %v, but its predicate's last evaluation returned no error", w.id, err)
				}
			})
		case "update", "spurious":
			label := fmt.Sprintf("u%02d", i)
			updLabels[label] = true
			o := op
			c.Go(label, func() {
				cb := func(broadcast func(), getWaitCh func() <-chan struct{}) {
					if o.K == "update" {
						if o.Peek == "before" {
							ch := getWaitCh()
							hm.Lock()
							chans = append(chans, handed{ch, bcount, label + "(before its broadcast)"})
							hm.Unlock()
						}
						state++
					}
					broadcast()
					hm.Lock()
					bcount++
					hm.Unlock()
					if o.Twice {
						// a second broadcast in the same section, with a wait channel taken in between
						ch := getWaitCh()
						broadcast()
						hm.Lock()
						chans = append(chans, handed{ch, bcount, label + "(between its two broadcasts)"})
						bcount++
						hm.Unlock()
					}
					if o.Peek == "after" {
						ch := getWaitCh()
						hm.Lock()
						chans = append(chans, handed{ch, bcount, label + "(after its broadcast)"})
						hm.Unlock()
					}
					if o.Panic {
						// a fault inside the critical section: the caller recovers; the lock must
						// not stay held and the broadcast must not be lost
						panicked = true
						panic("bcastx: injected panic inside the critical section")
					}
				}
				defer func() {
					if r := recover(); r != nil && !strings.Contains(fmt.Sprint(r), "bcastx: injected") {
						panic(r)
					}
				}()
				if o.Panic && o.Twice {
					// another fault: a nil callback (the call panics inside its critical section and the
					// caller recovers); nothing was changed or broadcast, the lock must not stay held
					nilCb = true
					defer func() {
						if r := recover(); r != nil && !nilCb {
							panic(r)
						}
					}()
					switch o.Via {
					case "try":
						b.TryHoldLock(nil)
					case "async":
						b.HoldLockMaybeAsync(nil)
					default:
						b.HoldLock(nil)
					}
					return
				}
				switch o.Via {
				case "try":
					if !b.TryHoldLock(cb) {
						// nothing happened; allowed only under contention, which the controller never creates
						fail("broadcast:tryholdlock-failed", "TryHoldLock returned false although no critical section was in progress")
					}
				case "async":
					b.HoldLockMaybeAsync(cb)
				default:
					b.HoldLock(cb)
				}
			})
		case "peek":
			label := fmt.Sprintf("p%02d", i)
			c.Go(label, func() {
				b.HoldLock(func(broadcast func(), getWaitCh func() <-chan struct{}) {
					ch := getWaitCh()
					ch2 := getWaitCh()
					hm.Lock()
					if ch != ch2 {
						fail("broadcast:getwaitch-unstable", "two getWaitCh calls in one critical section returned different channels")
					}
					chans = append(chans, handed{ch, bcount, label})
					hm.Unlock()
				})
			})
		case "advance":
			c.Settle(true)
			// every deadline set so far (10ms after its waiter was issued) expires during this sleep
			hm.Lock()
			for _, w := range waiters {
				if w.deadline && !w.expired {
					w.expired, w.cancelled = true, true
				}
			}
			hm.Unlock()
			time.Sleep(10 * time.Millisecond)
		case "cancel":
			hm.Lock()
			var el []*waiter
			for _, w := range waiters {
				if !w.returned && !w.cancelled {
					el = append(el, w)
				}
			}
			if len(el) == 0 {
				eff = false
				hm.Unlock()
				break
			}
			w := el[op.Pick%len(el)]
			w.cancelled = true
			hm.Unlock()
			w.cancel()
		}
		if eff {
			v.OpsEffective++
		}
		if c.Settle(false) {
			quiescent(fmt.Sprintf("after op %d", i))
		}
	}
	if len(v.Viol) == 0 && !c.StepLimit && c.Settle(true) {
		quiescent("end")
	}
	if p := c.Panics(); p != "" {
		fail("broadcast:panic", "operation panicked: %s", p)
	}
	c.PassThrough()
	hadViol := len(v.Viol) > 0
	hm.Lock()
	cleanup = true
	for _, w := range waiters {
		if !w.returned && !w.cancelled {
			w.cancelled = true
			w.cancel()
		}
	}
	hm.Unlock()
	c.Wait()
	if !hadViol {
		if bl := c.Blocked(); len(bl) > 0 {
			fail("broadcast:stuck-after-cancel", "ops %v never returned although every context was cancelled", bl)
		}
	}
	if window || cancelRace {
		v.SetNT(P)
	}
	if window {
		v.Class("broadcast-inside-sample-then-block-window")
	}
	if cancelRace {
		v.Class("cancel-after-predicate-evaluated")
	}
	if errDuringCancel {
		v.Class("predicate-failed-while-context-cancelled")
	}
	if panicked {
		v.Class("callback-panicked-inside-the-critical-section")
	}
}

func TestC03(t *testing.T) {
	ev.Drive(t, ev.Runner[Case]{
		Prop: P,
		Rule: "one Broadcast guarding an integer; ops Wait(state>=k | error at e, cancellable; the predicate may itself take the wait channel, broadcast and take it again), Update via HoldLock/TryHoldLock/HoldLockMaybeAsync (optionally taking a wait channel before/after its broadcast), spurious broadcast, Peek (keep a wait channel), Cancel; generated interleaving of all critical sections; non-trivial iff an update's critical section ran while a waiter was parked between its own critical section and its blocking receive, or a Wait was cancelled after its predicate had been evaluated; distinct by hash(ops, realised grant trace)",
		Gen:  genCase,
		Run:  run,
	})
}
