// Package ccontx decides C15 (ccontainer.CContainer).
package ccontx

import (
	"context"
	"encoding/json"
	"fmt"
	"strings"
	"sync"
	"testing"

	"github.com/aperturerobotics/util/ccontainer"
	"pgregory.net/rapid"
	"verif/harness/ev"
	"verif/harness/sched"
)

const P = "C15"

// Op is one generated operation.
type Op struct {
	K     string `json:"k"` // set swap get wait cancel errsend errclose
	V     int    `json:"v,omitempty"`
	Swap  string `json:"swap,omitempty"`  // inc | const | nil
	Wait  string `json:"wait,omitempty"`  // value | change | empty | valid | nilvalid
	Ge    int    `json:"ge,omitempty"`    // valid: v >= Ge
	ErrAt int    `json:"errat,omitempty"` // valid: validator fails when v == ErrAt (0 = never)
	Old   int    `json:"old,omitempty"`   // change: old value
	ErrCh bool   `json:"errch,omitempty"` // waiter has an error channel
	Pre   bool   `json:"pre,omitempty"`
	Nil   bool   `json:"nil,omitempty"` // errsend: send a nil error
	Pick  int    `json:"pick,omitempty"`
}

// Case is a generated history plus schedule.
type Case struct {
	Mod   int    `json:"mod"`           // custom equality: equal mod Mod (0 = none)
	Dir   bool   `json:"dir,omitempty"` // the custom comparator is directional: equal(held, incoming) iff incoming < held (a cell that only moves up)
	NoZ   bool   `json:"noz,omitempty"` // the custom comparator never calls a zero operand equal to anything (not even to zero)
	Init  int    `json:"init"`
	Ops   []Op   `json:"ops"`
	Sched []byte `json:"sched"`
}

func genCase(t *rapid.T) Case {
	kinds := []string{"set", "set", "swap", "swap", "get", "wait", "wait", "wait", "cancel", "errsend", "errclose"}
	genOp := rapid.Custom(func(t *rapid.T) Op {
		op := Op{K: rapid.SampledFrom(kinds).Draw(t, "k")}
		switch op.K {
		case "set":
			op.V = rapid.IntRange(0, 8).Draw(t, "v")
		case "swap":
			op.Swap = rapid.SampledFrom([]string{"inc", "inc", "const", "nil", "panic"}).Draw(t, "swap")
			op.V = rapid.IntRange(0, 8).Draw(t, "v")
		case "wait":
			op.Wait = rapid.SampledFrom([]string{"value", "change", "empty", "valid", "valid", "nilvalid", "watch"}).Draw(t, "wait")
			op.Ge = rapid.IntRange(0, 8).Draw(t, "ge")
			op.Old = rapid.IntRange(0, 8).Draw(t, "old")
			if rapid.IntRange(0, 3).Draw(t, "haserr") == 0 {
				op.ErrAt = rapid.IntRange(1, 8).Draw(t, "errat")
			}
			op.ErrCh = rapid.Bool().Draw(t, "errch")
			op.Pre = rapid.IntRange(0, 11).Draw(t, "pre") == 0
		case "cancel", "errclose":
			op.Pick = rapid.IntRange(0, 5).Draw(t, "pick")
		case "errsend":
			op.Pick = rapid.IntRange(0, 5).Draw(t, "pick")
			op.Nil = rapid.IntRange(0, 3).Draw(t, "nil") == 0
		}
		return op
	})
	cs := Case{
		Mod:   rapid.SampledFrom([]int{0, 0, 4}).Draw(t, "mod"),
		Init:  rapid.SampledFrom([]int{0, 0, 1, 4}).Draw(t, "init"),
		Ops:   rapid.SliceOfN(genOp, 2, ev.Pick(16, 40)).Draw(t, "ops"),
		Sched: sched.GenSchedule(t, ev.Pick(120, 400)),
	}
	cs.NoZ = cs.Mod != 0 && rapid.Bool().Draw(t, "noz")
	if cs.Mod == 0 && rapid.IntRange(0, 3).Draw(t, "dir") == 0 {
		cs.Dir = true
	}
	return cs
}

type waiter struct {
	id         int
	label      string
	op         Op
	cancel     context.CancelFunc
	cancelled  bool
	errCh      chan error
	sent       []error // non-nil errors put into errCh
	pendingErr int     // non-nil errors sitting unread (harness view)
	closedCh   bool
	returned   bool
	val        int
	err        error
	samples    []int
	validErr   error
	delivered  []int // watch: values handed to the WatchChanges callback
}

func run(t *testing.T, cs Case) *ev.Verdict {
	v := &ev.Verdict{}
	canon, _ := json.Marshal(struct {
		Mod, Init int
		NoZ, Dir  bool
		Ops       []Op
	}{cs.Mod, cs.Init, cs.NoZ, cs.Dir, cs.Ops})
	v.Canon = string(canon)
	c, berr := sched.Run(t, []string{"broadcast.lock", "broadcast.unlocked"}, cs.Sched, func(c *sched.Ctl) { body(c, cs, v) })
	v.Trace = c.Trace()
	if c.Prio {
		v.Class("priority-schedule")
	}
	if c.Mix {
		v.Class("uniform-decisions")
	}
	if c.StepLimit {
		v.Infra = "step limit exceeded"
	}
	if berr != "" && len(v.Viol) == 0 {
		v.Add(P, "ccontainer:leak", "bubble ended with blocked goroutines: %s", berr)
	}
	return v
}

func body(c *sched.Ctl, cs Case, v *ev.Verdict) {
	cmp := func(a, b int) bool {
		if a == b {
			return true
		}
		if cs.Dir {
			return b < a // (held, incoming): a smaller incoming value is "no change"
		}
		if cs.NoZ && (a == 0 || b == 0) {
			return false
		}
		return cs.Mod != 0 && a%cs.Mod == b%cs.Mod
	}
	var ctr *ccontainer.CContainer[int]
	if cs.Dir {
		// the container documents its calls as equal(current, new): a directional comparator
		ctr = ccontainer.NewCContainerWithEqual(cs.Init, func(a, b int) bool { return b < a })
	} else if cs.Mod != 0 {
		ctr = ccontainer.NewCContainerWithEqual(cs.Init, func(a, b int) bool {
			if cs.NoZ && (a == 0 || b == 0) {
				// e.g. a comparator over pointers that starts with "a != nil && b != nil &&":
				// identical values are equal anyway (the container checks identity first)
				return false
			}
			return a%cs.Mod == b%cs.Mod
		})
	} else {
		ctr = ccontainer.NewCContainer(cs.Init)
	}
	var hm, vm sync.Mutex
	fail := func(sig, f string, a ...any) {
		vm.Lock()
		v.Add(P, sig, f, a...)
		vm.Unlock()
	}
	model := cs.Init // advanced on the controller in grant order
	var waiters []*waiter
	byLabel := map[string]*waiter{}
	mutators := map[string]Op{}
	window := false
	incs := 0
	beforeOf := map[string]int{}
	type expect struct{ seen, ret int }
	expects := map[string]*expect{}
	var em sync.Mutex

	cond := func(w *waiter, x int) bool {
		switch w.op.Wait {
		case "nilvalid":
			return !cmp(x, 0) // the default validator compares (value, empty)
		case "value":
			return !cmp(0, x)
		case "change":
			return !cmp(w.op.Old, x)
		case "watch":
			// the watcher waits for a value that differs from the last one it handed out
			last := w.op.Old
			if n := len(w.delivered); n > 0 {
				last = w.delivered[n-1]
			}
			return !cmp(last, x)
		case "empty":
			return cmp(0, x)
		default: // valid
			return x >= w.op.Ge
		}
	}
	errAt := func(w *waiter, x int) bool { return w.op.Wait == "valid" && w.op.ErrAt != 0 && x == w.op.ErrAt }

	c.OnGrant(func(tk *sched.Ticket) {
		if tk.Point != "broadcast.lock" {
			return
		}
		if op, ok := mutators[tk.Label]; ok {
			before := model
			if _, dup := beforeOf[tk.Label]; !dup {
				beforeOf[tk.Label] = before
			}
			switch op.K {
			case "set":
				if !cmp(model, op.V) {
					model = op.V
				}
			case "swap":
				switch op.Swap {
				case "inc":
					if !cmp(model, model+1) {
						model = model + 1
					}
					incs++
				case "const":
					if !cmp(model, op.V) {
						model = op.V
					}
				}
			}
			if before != model || op.K != "get" {
				for _, p := range c.Pending() {
					if p.Point == "broadcast.unlocked" && strings.HasPrefix(p.Label, "w") && before != model {
						window = true
					}
				}
			}
			return
		}
		if w, ok := byLabel[tk.Label]; ok {
			hm.Lock()
			w.samples = append(w.samples, model)
			hm.Unlock()
		}
	})

	checkMutators := func() {
		em.Lock()
		defer em.Unlock()
		for label, e := range expects {
			op := mutators[label]
			before, ok := beforeOf[label]
			if !ok {
				fail("ccontainer:no-critical-section", "%s %s returned without a critical section", label, op.K)
				return
			}
			switch {
			case op.K == "get" || (op.K == "swap" && op.Swap == "nil"):
				if e.ret != before {
					fail("ccontainer:read-vs-model", "%s %s(%s) returned %d, the cell held %d in its critical section", label, op.K, op.Swap, e.ret, before)
					return
				}
			case op.K == "swap":
				want := before + 1
				if op.Swap == "const" {
					want = op.V
				}
				if e.seen != before || e.ret != want {
					fail("ccontainer:swap-vs-model", "%s SwapValue(%s): callback saw %d and the call returned %d; the cell held %d in its critical section (want return %d)", label, op.Swap, e.seen, e.ret, before, want)
					return
				}
			}
			delete(expects, label)
		}
	}

	quiescent := func(where string) {
		hm.Lock()
		defer hm.Unlock()
		checkMutators()
		if got := ctr.GetValue(); got != model {
			fail("ccontainer:cell-vs-model", "%s: GetValue()=%d, sequential model in critical-section order says %d", where, got, model)
			return
		}
		for _, w := range waiters {
			if w.returned {
				continue
			}
			switch {
			case w.cancelled:
				fail("ccontainer:cancelled-not-returned", "%s: waiter #%d (%s) whose context is cancelled is still blocked at full quiescence", where, w.id, w.op.Wait)
			case w.closedCh:
				fail("ccontainer:errch-closed-not-returned", "%s: waiter #%d (%s) whose error channel was closed is still blocked", where, w.id, w.op.Wait)
			case len(w.errCh) > 0:
				fail("ccontainer:errch-ignored", "%s: waiter #%d (%s) is blocked while an error is pending on its error channel", where, w.id, w.op.Wait)
			case errAt(w, model):
				fail("ccontainer:blocked-while-validator-fails", "%s: waiter #%d is blocked although its validator returns an error for the current value %d", where, w.id, model)
			case cond(w, model):
				fail("ccontainer:blocked-while-satisfied", "%s: waiter #%d (%s ge=%d old=%d) is blocked at full quiescence although the cell holds %d which satisfies its condition (samples %v)", where, w.id, w.op.Wait, w.op.Ge, w.op.Old, model, w.samples)
			default:
				continue
			}
			return
		}
	}

	for i, op := range cs.Ops {
		if len(v.Viol) > 0 || c.StepLimit {
			break
		}
		v.OpsTotal++
		eff := true
		switch op.K {
		case "set", "swap", "get":
			label := fmt.Sprintf("m%02d", i)
			o := op
			mutators[label] = o
			c.Go(label, func() {
				switch o.K {
				case "set":
					ctr.SetValue(o.V)
				case "get":
					got := ctr.GetValue()
					em.Lock()
					expects[label] = &expect{ret: got}
					em.Unlock()
				case "swap":
					var cb func(int) int
					seen := -1
					switch o.Swap {
					case "inc":
						cb = func(x int) int { seen = x; return x + 1 }
					case "const":
						cb = func(x int) int { seen = x; return o.V }
					}
					if o.Swap == "panic" {
						// a fault: the callback panics inside the critical section, the caller recovers;
						// the cell keeps its value and must stay usable
						func() {
							defer func() { _ = recover() }()
							ctr.SwapValue(func(int) int { panic("ccontx: injected panic in a SwapValue callback") })
						}()
						return
					}
					ret := ctr.SwapValue(cb)
					em.Lock()
					expects[label] = &expect{seen: seen, ret: ret}
					em.Unlock()
				}
			})
			// model snapshot for this op is taken at its grant; verify after it finished (below, at settle)
		case "wait":
			hm.Lock()
			w := &waiter{id: len(waiters), op: op, label: fmt.Sprintf("w%02d", i)}
			waiters = append(waiters, w)
			byLabel[w.label] = w
			hm.Unlock()
			ctx, cancel := context.WithCancel(context.Background())
			if w.id%3 == 0 {
				// cancelled with a cause: the context's error is still context.Canceled
				cctx, ccancel := context.WithCancelCause(context.Background())
				ctx, cancel = cctx, func() { ccancel(fmt.Errorf("cancel-cause-%d", w.id)) }
			}
			w.cancel = cancel
			if op.Pre {
				cancel()
				w.cancelled = true
			}
			if op.ErrCh {
				w.errCh = make(chan error, 1)
			}
			c.Go(w.label, func() {
				var errCh <-chan error
				if w.errCh != nil {
					errCh = w.errCh
				}
				var val int
				var err error
				switch w.op.Wait {
				case "value":
					val, err = ctr.WaitValue(ctx, errCh)
				case "change":
					val, err = ctr.WaitValueChange(ctx, w.op.Old, errCh)
				case "empty":
					err = ctr.WaitValueEmpty(ctx, errCh)
				case "nilvalid":
					val, err = ctr.WaitValueWithValidator(ctx, nil, errCh)
				case "watch":
					err = ccontainer.WatchChanges(ctx, w.op.Old, ccontainer.ToWatchable(ctr), func(x int) error {
						hm.Lock()
						defer hm.Unlock()
						if len(w.samples) == 0 {
							fail("ccontainer:return-without-sample", "watcher #%d got a value without entering a critical section", w.id)
							return nil
						}
						if last := w.samples[len(w.samples)-1]; x != last {
							fail("ccontainer:value-not-held", "watcher #%d was handed %d; the cell held %v at its samples (last %d)", w.id, x, w.samples, last)
						} else if !cond(w, x) {
							fail("ccontainer:condition-not-satisfied", "watcher #%d (initial %d, handed out so far %v) was handed %d which does not differ from the previous value", w.id, w.op.Old, w.delivered, x)
						}
						w.delivered = append(w.delivered, x)
						return nil
					}, errCh)
					if err == nil {
						err = fmt.Errorf("WatchChanges returned nil")
					}
				default:
					val, err = ctr.WaitValueWithValidator(ctx, func(x int) (bool, error) {
						if w.op.ErrAt != 0 && x == w.op.ErrAt {
							w.validErr = fmt.Errorf("validator-error-%d", w.id)
							return false, w.validErr
						}
						return x >= w.op.Ge, nil
					}, errCh)
				}
				hm.Lock()
				defer hm.Unlock()
				w.returned, w.val, w.err = true, val, err
				if err == nil {
					if len(w.samples) == 0 {
						fail("ccontainer:return-without-sample", "waiter #%d returned without entering a critical section", w.id)
						return
					}
					last := w.samples[len(w.samples)-1]
					if w.op.Wait != "empty" && val != last {
						fail("ccontainer:value-not-held", "waiter #%d (%s) returned %d; the cell held %v at its samples (last %d)", w.id, w.op.Wait, val, w.samples, last)
						return
					}
					if !cond(w, last) {
						fail("ccontainer:condition-not-satisfied", "waiter #%d (%s ge=%d old=%d) returned although the sampled value %d does not satisfy its condition", w.id, w.op.Wait, w.op.Ge, w.op.Old, last)
					}
					return
				}
				switch {
				case w.validErr != nil && err == w.validErr:
				case err == context.Canceled && (w.cancelled || w.closedCh):
				default:
					for _, e := range w.sent {
						if err == e {
							return
						}
					}
					fail("ccontainer:error-source", "waiter #%d (%s) returned error %v but neither its context (cancelled=%v) nor its error channel (sent=%v closed=%v) nor its validator produced it", w.id, w.op.Wait, err, w.cancelled, w.sent, w.closedCh)
				}
			})
		case "cancel", "errsend", "errclose":
			hm.Lock()
			var el []*waiter
			for _, w := range waiters {
				if w.returned || w.cancelled || w.closedCh {
					continue
				}
				if op.K != "cancel" && w.errCh == nil {
					continue
				}
				if op.K == "errsend" && len(w.errCh) > 0 {
					continue
				}
				el = append(el, w)
			}
			if len(el) == 0 {
				eff = false
				hm.Unlock()
				break
			}
			w := el[op.Pick%len(el)]
			switch op.K {
			case "cancel":
				w.cancelled = true
				hm.Unlock()
				w.cancel()
			case "errclose":
				w.closedCh = true
				hm.Unlock()
				close(w.errCh)
			case "errsend":
				var e error
				if !op.Nil {
					e = fmt.Errorf("errch-error-%d-%d", w.id, i)
					w.sent = append(w.sent, e)
					w.pendingErr++
				}
				hm.Unlock()
				w.errCh <- e
			}
		}
		if eff {
			v.OpsEffective++
		}
		if c.Settle(false) {
			quiescent(fmt.Sprintf("after op %d", i))
		}
	}
	if len(v.Viol) == 0 && !c.StepLimit && c.Settle(true) {
		quiescent("end")
	}
	if p := c.Panics(); p != "" {
		fail("ccontainer:panic", "operation panicked: %s", p)
	}
	c.PassThrough()
	hadViol := len(v.Viol) > 0
	hm.Lock()
	for _, w := range waiters {
		if !w.returned && !w.cancelled {
			w.cancelled = true
			w.cancel()
		}
	}
	hm.Unlock()
	c.Wait()
	if !hadViol {
		if bl := c.Blocked(); len(bl) > 0 {
			fail("ccontainer:stuck-after-cancel", "ops %v never returned although every context was cancelled", bl)
		}
	}
	if window {
		v.SetNT(P)
		v.Class("write-inside-sample-then-block-window")
	}
	if !hadViol {
		checkMutators()
	}
	if incs >= 2 {
		v.Class("concurrent-increments")
	}
}

func TestC15(t *testing.T) {
	ev.Drive(t, ev.Runner[Case]{
		Prop: P,
		Rule: "one CContainer[int] (plain, equal-mod-4 equality, a mod-4 comparator that never calls a zero operand equal, or a directional comparator equal(held, incoming) iff incoming < held); ops SetValue, SwapValue(inc|const|nil|panicking callback), GetValue, waiters WaitValue/WaitValueChange/WaitValueEmpty/WaitValueWithValidator(pred, failing pred, nil) and WatchChanges watchers (blocked only while the cell does not differ from the last value handed to the callback) with own context and optional error channel, Cancel, send (nil or error) / close on the error channel; sequential model advanced in the order the controller grants the critical sections; non-trivial iff a write changed the cell while a waiter was parked between its sample and its blocking select; distinct by hash(ops, realised grant trace)",
		Gen:  genCase,
		Run:  run,
	})
}
