package ccontx

import (
	"context"
	"testing"

	"github.com/aperturerobotics/util/ccontainer"
	"pgregory.net/rapid"
	"verif/harness/ev"
	"verif/harness/sched"
)

// vtMsg is a message type in the style of generated VT code: EqualVT tolerates nil
// operands (nil reads like the empty message), values compare by content.
type vtMsg struct{ n int }

func (m *vtMsg) getN() int {
	if m == nil {
		return 0
	}
	return m.n
}

func (m *vtMsg) EqualVT(o *vtMsg) bool { return m.getN()%4 == o.getN()%4 }

// VTOp is one call on a container built by NewCContainerVT.
type VTOp struct {
	K     string `json:"k"`               // set swap get probe
	V     int    `json:"v"`               // -1: nil, otherwise the content of the message
	Reuse bool   `json:"reuse,omitempty"` // pass the pointer the cell holds instead of a fresh message
	Probe string `json:"probe,omitempty"` // value empty change
}

// VTCase is a sequence of calls.
type VTCase struct {
	Init int    `json:"init"`
	Ops  []VTOp `json:"ops"`
}

func genVT(t *rapid.T) VTCase {
	val := rapid.SampledFrom([]int{-1, -1, 0, 0, 1, 2, 4, 5})
	return VTCase{
		Init: val.Draw(t, "init"),
		Ops: rapid.SliceOfN(rapid.Custom(func(t *rapid.T) VTOp {
			op := VTOp{K: rapid.SampledFrom([]string{"set", "set", "swap", "get", "probe", "probe"}).Draw(t, "k"), V: val.Draw(t, "v")}
			switch op.K {
			case "set", "swap":
				op.Reuse = rapid.IntRange(0, 4).Draw(t, "reuse") == 0
			case "probe":
				op.Probe = rapid.SampledFrom([]string{"value", "empty", "change"}).Draw(t, "probe")
			}
			return op
		}), 1, 12).Draw(t, "ops"),
	}
}

func mkVT(v int) *vtMsg {
	if v < 0 {
		return nil
	}
	return &vtMsg{n: v}
}

// runVT: sequential reference model of the cell under the documented VT equality (identical
// values are equal; nil never equals a message; two messages compare with EqualVT). A wait
// with a context that is already cancelled returns the value iff the cell satisfies the
// wait condition, which makes "satisfied" observable without a second goroutine.
func runVT(_ *testing.T, cs VTCase) *ev.Verdict {
	v := &ev.Verdict{}
	eq := func(a, b *vtMsg) bool {
		if a == b {
			return true
		}
		if (a == nil) != (b == nil) {
			return false
		}
		return a.EqualVT(b)
	}
	model := mkVT(cs.Init)
	ctr := ccontainer.NewCContainerVT(model)
	dead, cancel := context.WithCancel(context.Background())
	cancel()
	sawNilVsEmpty := false
	for i, op := range cs.Ops {
		arg := mkVT(op.V)
		if op.Reuse {
			arg = model
		}
		if (model == nil) != (arg == nil) && (model.getN()%4 == 0 && arg.getN()%4 == 0) {
			sawNilVsEmpty = true
		}
		switch op.K {
		case "set":
			ctr.SetValue(arg)
			if !eq(model, arg) {
				model = arg
			}
		case "swap":
			before := model
			var seen *vtMsg
			ret := ctr.SwapValue(func(cur *vtMsg) *vtMsg { seen = cur; return arg })
			if seen != before {
				v.Add(P, "ccontainer:swap-vs-model", "op %d: the SwapValue callback saw %p, the cell held %p", i, seen, before)
				return v
			}
			if ret != arg {
				v.Add(P, "ccontainer:swap-vs-model", "op %d: SwapValue returned %p, its callback returned %p", i, ret, arg)
				return v
			}
			if !eq(model, arg) {
				model = arg
			}
		case "get":
		case "probe":
			var got *vtMsg
			var err error
			want := false
			switch op.Probe {
			case "value":
				got, err = ctr.WaitValue(dead, nil)
				want = !eq(nil, model)
			case "empty":
				err = ctr.WaitValueEmpty(dead, nil)
				want = eq(nil, model)
				got = model
			default:
				got, err = ctr.WaitValueChange(dead, arg, nil)
				want = !eq(arg, model)
			}
			if want && (err != nil || got != model) {
				v.Add(P, "ccontainer:blocked-while-satisfied", "op %d: %s wait on a cell holding %v (arg %v) did not return the value at once (got %p err %v)", i, op.Probe, show(model), show(arg), got, err)
				return v
			}
			if !want && err == nil {
				v.Add(P, "ccontainer:condition-not-satisfied", "op %d: %s wait returned although the cell holds %v (arg %v), which does not satisfy its condition", i, op.Probe, show(model), show(arg))
				return v
			}
			if !want && err != context.Canceled {
				v.Add(P, "ccontainer:error-source", "op %d: %s wait with a cancelled context returned %v", i, op.Probe, err)
				return v
			}
		}
		if got := ctr.GetValue(); got != model {
			v.Add(P, "ccontainer:cell-vs-model", "after op %d (%s %v): the cell holds %v, the model says %v", i, op.K, show(arg), show(got), show(model))
			return v
		}
	}
	if sawNilVsEmpty {
		v.SetNT(P)
		v.Class("vt-nil-versus-empty-message")
	}
	return v
}

func show(m *vtMsg) any {
	if m == nil {
		return "nil"
	}
	return *m
}

func TestC15VT(t *testing.T) {
	ev.Drive(t, ev.Runner[VTCase]{
		Prop: P, ReplayRuns: 1,
		Rule: "one container built by NewCContainerVT over a message type whose EqualVT tolerates nil (content equality mod 4); 1..12 sequential SetValue/SwapValue/GetValue calls with nil, fresh or the held message, and WaitValue/WaitValueEmpty/WaitValueChange probes with an already cancelled context; sequential model under the documented VT equality (nil never equals a message); non-trivial iff nil met a message that reads like the empty one; distinct by input",
		Gen:  genVT,
		Run: func(t *testing.T, cs VTCase) *ev.Verdict {
			var v *ev.Verdict
			sched.Guard(func() { v = runVT(t, cs) })
			return v
		},
	})
}
