// Package racex decides C13: generated client programs run with real
// parallelism under the race detector (engine E3).
package racex

import (
	"bytes"
	"context"
	"encoding/json"
	"errors"
	"fmt"
	"github.com/sirupsen/logrus"
	"io"
	"os"
	"regexp"
	"runtime"
	"sort"
	"strings"
	"sync"
	"sync/atomic"
	"testing"
	"time"

	"github.com/aperturerobotics/util/broadcast"
	"github.com/aperturerobotics/util/ccall"
	"github.com/aperturerobotics/util/ccontainer"
	"github.com/aperturerobotics/util/conc"
	"github.com/aperturerobotics/util/cqueue"
	"github.com/aperturerobotics/util/csync"
	"github.com/aperturerobotics/util/iocloser"
	"github.com/aperturerobotics/util/iosizer"
	"github.com/aperturerobotics/util/keyed"
	"github.com/aperturerobotics/util/linkedlist"
	"github.com/aperturerobotics/util/memo"
	"github.com/aperturerobotics/util/promise"
	"github.com/aperturerobotics/util/refcount"
	"github.com/aperturerobotics/util/routine"
	cbackoff "github.com/cenkalti/backoff/v4"
	"pgregory.net/rapid"
	"verif/harness/ev"
	"verif/harness/sched"
)

const P = "C13"

// Op is an operation code (interpreted modulo the type's op table) and an argument.
type Op struct {
	K int `json:"k"`
	A int `json:"a"`
}

// Case is one client program.
type Case struct {
	Type string `json:"type"`
	G    [][]Op `json:"g"`
}

// prog is the runtime state of one program.
type prog struct {
	root     context.Context
	n        int
	finished atomic.Int32
	blocked  atomic.Int32
	mu       sync.Mutex
	cancels  map[int]context.CancelFunc
	nextID   int
	errBoom  error
	variant  int // derived from the program: selects optional configuration
}

// seedHalf is true for about half of the programs (a pure function of the program).
func (p *prog) seedHalf() bool { return p.variant%2 == 1 }

// block runs f with a context that the monitor cancels once every goroutine of
// the program is finished or inside a possibly blocking call.
func (p *prog) block(f func(ctx context.Context)) {
	ctx, cancel := context.WithCancel(p.root)
	p.mu.Lock()
	id := p.nextID
	p.nextID++
	p.cancels[id] = cancel
	p.mu.Unlock()
	p.blocked.Add(1)
	f(ctx)
	p.blocked.Add(-1)
	p.mu.Lock()
	delete(p.cancels, id)
	p.mu.Unlock()
	cancel()
}

func (p *prog) monitor(done <-chan struct{}) {
	for {
		select {
		case <-done:
			return
		default:
		}
		if int(p.finished.Load()+p.blocked.Load()) >= p.n && p.blocked.Load() > 0 {
			p.mu.Lock()
			for _, c := range p.cancels {
				c()
			}
			p.mu.Unlock()
		}
		time.Sleep(20 * time.Microsecond)
	}
}

type typeDef struct {
	name  string
	setup func(p *prog) (ops []func(g, a int), teardown func())
}

var quick = func(ctx context.Context) error { return nil }

func types() []typeDef {
	return []typeDef{
		{"broadcast", func(p *prog) ([]func(g, a int), func()) {
			var b broadcast.Broadcast
			state := 0
			upd := func(broadcast func(), getWaitCh func() <-chan struct{}) { state++; broadcast() }
			return []func(g, a int){
				func(g, a int) { b.HoldLock(upd) },
				func(g, a int) { b.TryHoldLock(upd) },
				func(g, a int) { b.HoldLockMaybeAsync(upd) },
				func(g, a int) {
					b.HoldLock(func(broadcast func(), getWaitCh func() <-chan struct{}) { _ = getWaitCh(); _ = state })
				},
				func(g, a int) {
					p.block(func(ctx context.Context) {
						want := 0
						b.HoldLock(func(_ func(), _ func() <-chan struct{}) { want = state + a%3 })
						_ = b.Wait(ctx, func(_ func(), _ func() <-chan struct{}) (bool, error) { return state >= want, nil })
					})
				},
			}, func() { time.Sleep(time.Millisecond) }
		}},
		{"mutex", func(p *prog) ([]func(g, a int), func()) {
			var m csync.Mutex
			var l sync.Locker
			if !p.seedHalf() {
				l = m.Locker() // (otherwise the first Locker() calls happen concurrently)
			}
			shared := 0
			return []func(g, a int){
				func(g, a int) {
					p.block(func(ctx context.Context) {
						if rel, err := m.Lock(ctx); err == nil {
							shared++
							rel()
							if a%4 == 0 {
								rel()
							}
						}
					})
				},
				func(g, a int) {
					if rel, ok := m.TryLock(); ok {
						shared++
						if a%4 == 1 {
							// the release function may be called from any goroutine, also twice at once
							var wg sync.WaitGroup
							wg.Add(1)
							go func() { defer wg.Done(); rel() }()
							rel()
							wg.Wait()
							return
						}
						rel()
						if a%4 == 0 {
							rel()
						}
					}
				},
				func(g, a int) {
					ll := l
					if ll == nil {
						ll = m.Locker()
					}
					ll.Lock()
					shared++
					ll.Unlock()
				},
				// every goroutine asks the Mutex for its own Locker
				func(g, a int) { own := m.Locker(); own.Lock(); shared++; own.Unlock() },
			}, nil
		}},
		{"rwmutex", func(p *prog) ([]func(g, a int), func()) {
			var m csync.RWMutex
			var wl, rl sync.Locker
			if !p.seedHalf() {
				wl, rl = m.Locker(), m.RLocker()
			}
			shared := 0
			return []func(g, a int){
				func(g, a int) {
					p.block(func(ctx context.Context) {
						w := a%2 == 0
						if rel, err := m.Lock(ctx, w); err == nil {
							if w {
								shared++
							} else {
								_ = shared
							}
							rel()
							if a%4 == 1 {
								rel()
							}
						}
					})
				},
				func(g, a int) {
					w := a%2 == 0
					if rel, ok := m.TryLock(w); ok {
						if w {
							shared++
						} else {
							_ = shared
						}
						if a%4 >= 2 {
							var wg sync.WaitGroup
							wg.Add(1)
							go func() { defer wg.Done(); rel() }()
							rel()
							wg.Wait()
							return
						}
						rel()
					}
				},
				func(g, a int) {
					ll := wl
					if ll == nil {
						ll = m.Locker()
					}
					ll.Lock()
					shared++
					ll.Unlock()
				},
				func(g, a int) {
					ll := rl
					if ll == nil {
						ll = m.RLocker()
					}
					ll.Lock()
					_ = shared
					ll.Unlock()
				},
				func(g, a int) {
					if a%2 == 0 {
						own := m.Locker()
						own.Lock()
						shared++
						own.Unlock()
					} else {
						own := m.RLocker()
						own.Lock()
						_ = shared
						own.Unlock()
					}
				},
			}, nil
		}},
		{"ccontainer", func(p *prog) ([]func(g, a int), func()) {
			c := ccontainer.NewCContainerWithEqual(0, func(x, y int) bool { return x == y })
			return []func(g, a int){
				func(g, a int) { c.SetValue(a % 4) },
				func(g, a int) { c.SwapValue(func(v int) int { return v + 1 }) },
				func(g, a int) { _ = c.GetValue() },
				func(g, a int) { _ = c.SwapValue(nil) }, // documented: returns the current value
				func(g, a int) { p.block(func(ctx context.Context) { _, _ = c.WaitValue(ctx, nil) }) },
				func(g, a int) { p.block(func(ctx context.Context) { _, _ = c.WaitValueChange(ctx, a%4, nil) }) },
				func(g, a int) { p.block(func(ctx context.Context) { _ = c.WaitValueEmpty(ctx, nil) }) },
				func(g, a int) {
					p.block(func(ctx context.Context) {
						errCh := make(chan error, 1)
						if a%3 == 0 {
							errCh <- p.errBoom
						}
						_, _ = c.WaitValueWithValidator(ctx, func(v int) (bool, error) { return v >= a%5, nil }, errCh)
					})
				},
				func(g, a int) {
					p.block(func(ctx context.Context) {
						n := 0
						_ = ccontainer.WatchChanges[int](ctx, -1, c, func(int) error {
							n++
							if n > 2 {
								return p.errBoom
							}
							return nil
						}, nil)
					})
				},
			}, nil
		}},
		{"ccall", func(p *prog) ([]func(g, a int), func()) {
			// one argument slice (with nil entries) that several goroutines pass at the same time:
			// the callers only read it
			shared := []ccall.CallConcurrentlyFunc{nil, quick, nil, quick, func(ctx context.Context) error { runtime.Gosched(); return nil }}
			return []func(g, a int){
				func(g, a int) { _ = ccall.CallConcurrently(p.root, shared...) },
				func(g, a int) {
					fns := []ccall.CallConcurrentlyFunc{}
					for i := 0; i <= a%5; i++ {
						switch (a + i) % 4 {
						case 0:
							fns = append(fns, quick)
						case 1:
							fns = append(fns, func(ctx context.Context) error { return p.errBoom })
						case 2:
							fns = append(fns, nil)
						default:
							fns = append(fns, func(ctx context.Context) error { runtime.Gosched(); return ctx.Err() })
						}
					}
					_ = ccall.CallConcurrently(p.root, fns...)
					// the slice is the caller's again once the call has returned (it may have returned
					// early, on the first error)
					for i := range fns {
						fns[i] = quick
					}
				},
				func(g, a int) {
					// the caller's context is cancelled while the functions are still running;
					// they then return errors
					ctx, cancel := context.WithCancel(p.root)
					fns := []ccall.CallConcurrentlyFunc{}
					for i := 0; i < 2+a%3; i++ {
						fns = append(fns, func(c context.Context) error { <-c.Done(); return p.errBoom })
					}
					if a%2 == 0 {
						go cancel()
					} else {
						go func() { runtime.Gosched(); cancel() }()
					}
					_ = ccall.CallConcurrently(ctx, fns...)
					cancel()
					for i := range fns {
						fns[i] = nil
					}
				},
				func(g, a int) {
					// a context that is already cancelled: the call may return before any function ran
					ctx, cancel := context.WithCancel(p.root)
					cancel()
					fns := make([]ccall.CallConcurrentlyFunc, 2+a%4)
					for i := range fns {
						fns[i] = quick
					}
					_ = ccall.CallConcurrently(ctx, fns...)
					for i := range fns {
						fns[i] = nil
					}
				},
			}, nil
		}},
		{"conc", func(p *prog) ([]func(g, a int), func()) {
			var ran atomic.Int64
			job := func() { ran.Add(1); runtime.Gosched() }
			q := conc.NewConcurrentQueue(2, job, job, job)
			q0 := conc.NewConcurrentQueue(0)
			pick := func(a int) *conc.ConcurrentQueue {
				if a%3 == 0 {
					return q0
				}
				return q
			}
			return []func(g, a int){
					func(g, a int) {
						js := make([]func(), a%4)
						for i := range js {
							js[i] = job
						}
						pick(a).Enqueue(js...)
					},
					func(g, a int) { p.block(func(ctx context.Context) { _ = pick(a).WaitIdle(ctx, nil) }) },
					func(g, a int) {
						p.block(func(ctx context.Context) {
							n := 0
							_ = pick(a).WatchState(ctx, nil, func(qd, rn int) (bool, error) { n++; return n < 3 && qd+rn > 0, nil })
						})
					},
				}, func() {
					ctx, cancel := context.WithTimeout(context.Background(), 2*time.Second)
					_ = q.WaitIdle(ctx, nil)
					_ = q0.WaitIdle(ctx, nil)
					cancel()
				}
		}},
		{"lifo", func(p *prog) ([]func(g, a int), func()) {
			var q cqueue.AtomicLIFO[int]
			return []func(g, a int){
				func(g, a int) { q.Push(a + 1) },
				func(g, a int) { _ = q.Pop() },
			}, nil
		}},
		{"linkedlist", func(p *prog) ([]func(g, a int), func()) {
			l := linkedlist.NewLinkedList(1, 2, 3)
			return []func(g, a int){
				func(g, a int) { l.Push(a) },
				func(g, a int) { l.PushFront(a) },
				func(g, a int) { _, _ = l.Pop() },
				func(g, a int) { _, _ = l.Peek() },
				func(g, a int) { _, _ = l.PeekTail() },
				func(g, a int) { _ = l.IsEmpty() },
				func(g, a int) { l.Reset() },
			}, nil
		}},
		{"keyed", func(p *prog) ([]func(g, a int), func()) { return keyedOps(p, false) }},
		{"keyedrefcount", func(p *prog) ([]func(g, a int), func()) { return keyedOps(p, true) }},
		{"routine", func(p *prog) ([]func(g, a int), func()) { return routineOps(p, false) }},
		{"stateroutine", func(p *prog) ([]func(g, a int), func()) { return routineOps(p, true) }},
		{"refcount", refcountOps},
		{"promise", func(p *prog) ([]func(g, a int), func()) {
			// one-shot objects: a program works on 8 promises so that every one of them sees a first-SetResult race
			var prs [8]*promise.Promise[int]
			var wins [8]atomic.Int32
			for i := range prs {
				prs[i] = promise.NewPromise[int]()
			}
			return []func(g, a int){
				func(g, a int) {
					var e error
					if a%3 == 0 {
						e = p.errBoom
					}
					if prs[a%8].SetResult(a, e) {
						wins[a%8].Add(1)
					}
				},
				func(g, a int) { p.block(func(ctx context.Context) { _, _ = prs[a%8].Await(ctx) }) },
				func(g, a int) {
					p.block(func(ctx context.Context) {
						ch := make(chan error, 1)
						if a%2 == 0 {
							ch <- p.errBoom
						}
						_, _ = prs[a%8].AwaitWithErrCh(ctx, ch)
					})
				},
				func(g, a int) {
					p.block(func(ctx context.Context) {
						ch := make(chan struct{})
						if a%2 == 0 {
							close(ch)
						}
						_, _ = prs[a%8].AwaitWithCancelCh(ctx, ch)
					})
				},
				func(g, a int) { prs[a%8].SetResult(a, nil) },
			}, nil
		}},
		{"promisecontainer", func(p *prog) ([]func(g, a int), func()) {
			pc := promise.NewPromiseContainer[int]()
			inner := promise.NewPromise[int]()
			return []func(g, a int){
				func(g, a int) {
					switch a % 3 {
					case 0:
						pc.SetPromise(nil)
					case 1:
						pc.SetPromise(inner)
					default:
						pc.SetPromise(promise.NewPromise[int]())
					}
				},
				func(g, a int) { pc.SetResult(a, nil) },
				func(g, a int) { inner.SetResult(a, nil) },
				func(g, a int) { _, _ = pc.GetPromise() },
				func(g, a int) { p.block(func(ctx context.Context) { _, _ = pc.Await(ctx) }) },
				func(g, a int) {
					p.block(func(ctx context.Context) { _, _ = pc.AwaitWithErrCh(ctx, make(chan error)) })
				},
				func(g, a int) {
					p.block(func(ctx context.Context) { _, _ = pc.AwaitWithCancelCh(ctx, make(chan struct{})) })
				},
			}, nil
		}},
		{"once", func(p *prog) ([]func(g, a int), func()) {
			var calls atomic.Int64
			o := promise.NewOnce(func(ctx context.Context) (int, error) {
				n := calls.Add(1)
				runtime.Gosched()
				if n%2 == 1 {
					return 0, p.errBoom
				}
				return int(n), nil
			})
			return []func(g, a int){
				func(g, a int) { p.block(func(ctx context.Context) { _, _ = o.Resolve(ctx) }) },
				func(g, a int) {
					ctx, cancel := context.WithCancel(p.root)
					cancel()
					_, _ = o.Resolve(ctx)
				},
			}, nil
		}},
		{"memo", func(p *prog) ([]func(g, a int), func()) {
			var calls atomic.Int64
			var fs [8]func() (int, error)
			for i := range fs {
				fs[i] = memo.MemoizeFunc(func() (int, error) {
					runtime.Gosched()
					n := int(calls.Add(1))
					if i%4 == 3 {
						// the memoized function panics; its callers recover
						panic("racex: memoized function panics")
					}
					if i%4 == 2 {
						return n, p.errBoom
					}
					return n, nil
				})
			}
			return []func(g, a int){func(g, a int) {
				defer func() { _ = recover() }()
				_, _ = fs[a%8]()
			}}, nil
		}},
		{"iocloser", func(p *prog) ([]func(g, a int), func()) {
			st := &lockedBuf{}
			var closes atomic.Int64
			// the close functions fail: Close may be called again, also from several goroutines at once
			rc := iocloser.NewReadCloser(st, func() error { closes.Add(1); return p.errBoom })
			wc := iocloser.NewWriteCloser(st, func() error { closes.Add(1); return p.errBoom })
			return []func(g, a int){
				func(g, a int) { _, _ = rc.Read(make([]byte, a%8)) },
				func(g, a int) { _, _ = wc.Write(make([]byte, a%8)) },
				func(g, a int) {
					if a%3 == 0 {
						_ = rc.Close()
					}
				},
				func(g, a int) {
					if a%3 == 0 {
						_ = wc.Close()
					}
				},
			}, nil
		}},
		{"iosizer", func(p *prog) ([]func(g, a int), func()) {
			st := &lockedBuf{eof: p.seedHalf()}
			s := iosizer.NewSizeReadWriter(st, st)
			return []func(g, a int){
				func(g, a int) { _, _ = s.Read(make([]byte, a%8)) },
				func(g, a int) { _, _ = s.Write(make([]byte, a%8)) },
				func(g, a int) { _ = s.TotalSize() },
			}, nil
		}},
	}
}

type lockedBuf struct {
	mu  sync.Mutex
	b   bytes.Buffer
	eof bool // report io.EOF when drained (a later Write makes data available again)
}

func (l *lockedBuf) Read(p []byte) (int, error) {
	l.mu.Lock()
	defer l.mu.Unlock()
	n, err := l.b.Read(p)
	if l.eof {
		return n, err
	}
	return n, nil
}

func (l *lockedBuf) Write(p []byte) (int, error) {
	l.mu.Lock()
	defer l.mu.Unlock()
	return l.b.Write(p)
}

func keyedOps(p *prog, rc bool) ([]func(g, a int), func()) {
	var ctors atomic.Int64
	ctor := func(key int) (keyed.Routine, int) {
		n := int(ctors.Add(1))
		switch n % 4 {
		case 0:
			return nil, n
		case 1:
			return func(ctx context.Context) error { return nil }, n
		case 2:
			return func(ctx context.Context) error { return p.errBoom }, n
		}
		return func(ctx context.Context) error { <-ctx.Done(); return ctx.Err() }, n
	}
	var exits atomic.Int64
	opts := []keyed.Option[int, int]{
		keyed.WithReleaseDelay[int, int](200 * time.Microsecond),
		keyed.WithBackoff[int, int](func(int) cbackoff.BackOff { return cbackoff.NewConstantBackOff(100 * time.Microsecond) }),
		keyed.WithExitCb[int, int](func(int, keyed.Routine, int, error) { exits.Add(1) }),
	}
	if p.seedHalf() {
		// several exit callbacks, the first of them slow: the later ones run well after the
		// instance's bookkeeping section
		lgx := logrus.New()
		lgx.SetOutput(io.Discard)
		opts = append(opts,
			keyed.WithExitCb[int, int](func(int, keyed.Routine, int, error) { runtime.Gosched(); exits.Add(1) }),
			keyed.WithExitLogger[int, int](logrus.NewEntry(lgx)),
			keyed.WithExitCb[int, int](func(_ int, _ keyed.Routine, _ int, err error) {
				if err != nil {
					exits.Add(1)
				}
			}))
	}
	cond := func(a int) []func(int, int) bool {
		switch a % 3 {
		case 0:
			return nil
		case 1:
			return []func(int, int) bool{func(k, d int) bool { return d%2 == 0 }}
		}
		return []func(int, int) bool{nil, func(k, d int) bool { return true }}
	}
	ctxA, cancelA := context.WithCancel(p.root)
	ctxB, cancelB := context.WithCancel(p.root)
	pickCtx := func(a int) context.Context {
		switch a % 3 {
		case 0:
			return ctxA
		case 1:
			return ctxB
		}
		return nil
	}
	// an options slice with spare capacity shared by concurrent constructor calls
	sharedOpts := append(make([]keyed.Option[int, int], 0, 8), opts...)
	lg := logrus.New()
	lg.SetOutput(io.Discard)
	le := logrus.NewEntry(lg)
	if !rc {
		k := keyed.NewKeyed(ctor, opts...)
		return []func(g, a int){
				func(g, a int) { keyed.NewKeyedWithLogger(ctor, le, sharedOpts...).GetKeys() },
				func(g, a int) { k.SetKey(a%3, a%2 == 0) },
				func(g, a int) { k.RemoveKey(a % 3) },
				func(g, a int) { k.SyncKeys([]int{a % 3, (a + 1) % 3, a % 3}, a%2 == 0) },
				func(g, a int) { k.GetKey(a % 3); k.GetKeys(); k.GetKeysWithData() },
				func(g, a int) { k.SetContext(pickCtx(a), a%2 == 0) },
				func(g, a int) { k.RestartRoutine(a%3, cond(a)...) },
				func(g, a int) { k.ResetRoutine(a%3, cond(a)...) },
				func(g, a int) { k.RestartAllRoutines(cond(a)...) },
				func(g, a int) { k.ResetAllRoutines(cond(a)...) },
			}, func() {
				k.ClearContext()
				cancelA()
				cancelB()
				time.Sleep(2 * time.Millisecond)
			}
	}
	k := keyed.NewKeyedRefCount(ctor, opts...)
	var refs sync.Map
	var nref atomic.Int64
	return []func(g, a int){
			func(g, a int) { keyed.NewKeyedRefCountWithLogger(ctor, le, sharedOpts...).GetKeys() },
			func(g, a int) {
				ref, _, _ := k.AddKeyRef(a % 3)
				refs.Store(nref.Add(1), ref)
			},
			func(g, a int) {
				if r, ok := refs.Load(int64(a%8 + 1)); ok {
					r.(*keyed.KeyedRef[int, int]).Release()
				}
			},
			func(g, a int) { k.RemoveKey(a % 3) },
			func(g, a int) { k.GetKey(a % 3); k.GetKeys(); k.GetKeysWithData() },
			func(g, a int) { k.SetContext(pickCtx(a), a%2 == 0) },
			func(g, a int) { k.RestartRoutine(a%3, cond(a)...) },
			func(g, a int) { k.ResetRoutine(a%3, cond(a)...) },
			func(g, a int) { k.RestartAllRoutines(cond(a)...); k.ResetAllRoutines(cond(a)...) },
		}, func() {
			k.ClearContext()
			cancelA()
			cancelB()
			time.Sleep(2 * time.Millisecond)
		}
}

func routineOps(p *prog, state bool) ([]func(g, a int), func()) {
	var exits atomic.Int64
	opts := []routine.Option{
		routine.WithExitCb(func(error) { exits.Add(1) }),
		routine.WithBackoff(cbackoff.NewConstantBackOff(100 * time.Microsecond)),
	}
	if p.seedHalf() {
		lgx := logrus.New()
		lgx.SetOutput(io.Discard)
		opts = append(opts,
			routine.WithExitCb(func(error) { runtime.Gosched(); exits.Add(1) }),
			routine.WithExitLogger(logrus.NewEntry(lgx)),
			routine.WithExitCb(func(err error) {
				if err != nil {
					exits.Add(1)
				}
			}))
	}
	ctxA, cancelA := context.WithCancel(p.root)
	ctxB, cancelB := context.WithCancel(p.root)
	pickCtx := func(a int) context.Context {
		switch a % 3 {
		case 0:
			return ctxA
		case 1:
			return ctxB
		}
		return nil
	}
	body := func(a int) func(ctx context.Context) error {
		switch a % 3 {
		case 0:
			return func(ctx context.Context) error { return nil }
		case 1:
			return func(ctx context.Context) error { return p.errBoom }
		}
		return func(ctx context.Context) error { <-ctx.Done(); return ctx.Err() }
	}
	if !state {
		rc := routine.NewRoutineContainer(opts...)
		return []func(g, a int){
				func(g, a int) { rc.SetContext(pickCtx(a), a%2 == 0) },
				func(g, a int) {
					if a%5 == 0 {
						rc.SetRoutine(nil)
					} else {
						rc.SetRoutine(body(a))
					}
				},
				func(g, a int) { rc.RestartRoutine() },
				func(g, a int) { rc.ClearContext() },
				func(g, a int) {
					p.block(func(ctx context.Context) { _ = rc.WaitExited(ctx, a%2 == 0, nil) })
				},
			}, func() {
				rc.ClearContext()
				cancelA()
				cancelB()
				time.Sleep(2 * time.Millisecond)
			}
	}
	sc := routine.NewStateRoutineContainer[int](func(a, b int) bool { return a == b }, opts...)
	return []func(g, a int){
			func(g, a int) { sc.SetContext(pickCtx(a), a%2 == 0) },
			func(g, a int) { sc.SetState(a % 4) },
			func(g, a int) { _ = sc.GetState() },
			func(g, a int) {
				if a%5 == 0 {
					sc.SetStateRoutine(nil)
				} else {
					b := body(a)
					sc.SetStateRoutine(func(ctx context.Context, st int) error { return b(ctx) })
				}
			},
			func(g, a int) { sc.SwapValue(func(v int) int { return (v + 1) % 4 }) },
			func(g, a int) { sc.RestartRoutine() },
			func(g, a int) { sc.ClearContext() },
			func(g, a int) {
				p.block(func(ctx context.Context) { _ = sc.WaitExited(ctx, a%2 == 0, nil) })
			},
		}, func() {
			sc.ClearContext()
			cancelA()
			cancelB()
			time.Sleep(2 * time.Millisecond)
		}
}

func refcountOps(p *prog) ([]func(g, a int), func()) {
	target := ccontainer.NewCContainer(0)
	targetErr := ccontainer.NewCContainer[*error](nil)
	var n atomic.Int64
	var lastReleased atomic.Pointer[func()]
	resolver := func(ctx context.Context, released func()) (int, func(), error) {
		lastReleased.Store(&released)
		k := int(n.Add(1))
		runtime.Gosched()
		if k%4 == 0 {
			return 0, nil, p.errBoom
		}
		return k, func() {}, nil
	}
	ctxA, cancelA := context.WithCancel(p.root)
	rc := refcount.NewRefCount(ctxA, false, target, targetErr, resolver)
	var refs sync.Map
	var nref atomic.Int64
	var seen atomic.Int64
	return []func(g, a int){
			func(g, a int) {
				var cb func(bool, int, error)
				if a%3 != 0 {
					cb = func(bool, int, error) { seen.Add(1) }
				}
				refs.Store(nref.Add(1), rc.AddRef(cb))
			},
			func(g, a int) {
				if r, ok := refs.Load(int64(a%8 + 1)); ok {
					r.(*refcount.Ref[int]).Release()
				}
			},
			func(g, a int) {
				if a%2 == 0 {
					rc.SetContext(ctxA)
				} else {
					rc.ClearContext()
				}
			},
			func(g, a int) {
				if f := lastReleased.Load(); f != nil {
					(*f)()
				}
			},
			func(g, a int) {
				p.block(func(ctx context.Context) {
					if _, ref, err := rc.Wait(ctx); err == nil {
						ref.Release()
					}
				})
			},
			func(g, a int) {
				p.block(func(ctx context.Context) {
					if _, rel, err := rc.ResolveWithReleased(ctx, func() { seen.Add(1) }); err == nil {
						rel()
					}
				})
			},
			func(g, a int) {
				p.block(func(ctx context.Context) {
					_ = rc.Access(ctx, func(ctx context.Context, v int) error { runtime.Gosched(); return nil })
				})
			},
			func(g, a int) {
				p.block(func(ctx context.Context) { _, _ = refcount.WaitRefCountContainer(ctx, target, targetErr) })
			},
		}, func() {
			rc.ClearContext()
			cancelA()
			time.Sleep(time.Millisecond)
		}
}

var typeNames []string
var typeByName = map[string]typeDef{}

func init() {
	for _, td := range types() {
		typeNames = append(typeNames, td.name)
		typeByName[td.name] = td
	}
}

func genCase(t *rapid.T) Case {
	names := typeNames
	if only := os.Getenv("VERIF_RACE_TYPES"); only != "" {
		names = strings.Split(only, ",")
	}
	c := Case{Type: rapid.SampledFrom(names).Draw(t, "type")}
	g := rapid.IntRange(2, ev.Pick(6, 8)).Draw(t, "g")
	op := rapid.Custom(func(t *rapid.T) Op {
		return Op{K: rapid.IntRange(0, 11).Draw(t, "k"), A: rapid.IntRange(0, 23).Draw(t, "a")}
	})
	for i := 0; i < g; i++ {
		c.G = append(c.G, rapid.SliceOfN(op, 1, ev.Pick(12, 20)).Draw(t, "ops"))
	}
	return c
}

// ---- race log handling ----

var racePath = func() string {
	for _, kv := range strings.Fields(os.Getenv("GORACE")) {
		if strings.HasPrefix(kv, "log_path=") {
			return strings.TrimPrefix(kv, "log_path=") + "." + fmt.Sprint(os.Getpid())
		}
	}
	return ""
}()

var raceOff int64

var frameRe = regexp.MustCompile(`^  (\S+)\(`)

// Race is one parsed report.
type Race struct {
	Sig   string
	Text  string
	IsLib bool
}

var repoRoot = func() string {
	if r := os.Getenv("VERIF_REPO"); r != "" {
		return strings.TrimRight(r, "/") + "/"
	}
	return "/repo/"
}()

var goRoot = strings.TrimRight(runtime.GOROOT(), "/") + "/"

// classify a frame by its file: std (toolchain), lib (non-test file of the
// repository, hooks excluded) or other (harness, module cache).
// Function names are not reliable: instantiations of generic library functions
// carry the caller's package path.
func isStd(file string) bool { return strings.HasPrefix(file, goRoot) }

func libFunc(fn, file string) bool {
	if !strings.HasPrefix(file, repoRoot) {
		return false
	}
	rel := strings.TrimPrefix(file, repoRoot)
	if i := strings.IndexByte(rel, ':'); i >= 0 {
		rel = rel[:i]
	}
	return !strings.HasSuffix(rel, "_test.go") && !strings.HasPrefix(rel, "verifhook/")
}

// ParseRaces splits race-detector output into reports and computes their signatures:
// the unordered pair of the first non-stdlib frames of the two access stacks.
func ParseRaces(txt string) []Race {
	var out []Race
	blocks := strings.Split(txt, "==================")
	for _, b := range blocks {
		if !strings.Contains(b, "WARNING: DATA RACE") {
			continue
		}
		lines := strings.Split(b, "\n")
		var firsts []string
		var lib []bool
		inAccess := false
		found := false
		for i := 0; i < len(lines); i++ {
			ln := lines[i]
			if strings.HasPrefix(ln, "Write at") || strings.HasPrefix(ln, "Read at") || strings.HasPrefix(ln, "Previous write at") || strings.HasPrefix(ln, "Previous read at") || strings.HasPrefix(ln, "Atomic") || strings.HasPrefix(ln, "Previous atomic") {
				inAccess, found = true, false
				continue
			}
			if strings.HasPrefix(ln, "Goroutine ") || strings.HasPrefix(ln, "Mutex ") {
				inAccess = false
				continue
			}
			if !inAccess || found {
				continue
			}
			m := frameRe.FindStringSubmatch(ln)
			if m == nil || i+1 >= len(lines) {
				continue
			}
			fn := m[1]
			file := strings.TrimSpace(lines[i+1])
			if isStd(file) {
				continue
			}
			found = true
			isLib := libFunc(fn, file)
			if isLib {
				// stable signature: file:function tail (the file is what identifies library code)
				rel := strings.TrimPrefix(file, repoRoot)
				if j := strings.IndexByte(rel, ':'); j >= 0 {
					rel = rel[:j]
				}
				if k := strings.LastIndexByte(fn, '/'); k >= 0 {
					fn = fn[k+1:]
				}
				fn = rel + "#" + fn
			}
			firsts = append(firsts, fn)
			lib = append(lib, isLib)
		}
		r := Race{Text: strings.TrimSpace(b)}
		for _, l := range lib {
			if l {
				r.IsLib = true
			}
		}
		sort.Strings(firsts)
		r.Sig = "race:" + strings.Join(firsts, "|")
		out = append(out, r)
	}
	return out
}

func newRaces() []Race {
	if racePath == "" {
		return nil
	}
	b, err := os.ReadFile(racePath)
	if err != nil || int64(len(b)) <= raceOff {
		return nil
	}
	txt := string(b[raceOff:])
	raceOff = int64(len(b))
	return ParseRaces(txt)
}

var pairCover = map[string]map[[2]int]bool{}

func run(t *testing.T, cs Case) *ev.Verdict {
	v := &ev.Verdict{}
	cj, _ := json.Marshal(cs)
	v.Canon = string(cj)
	td, ok := typeByName[cs.Type]
	if !ok {
		v.Infra = "unknown type " + cs.Type
		return v
	}
	sched.SetFreeRunning(true)
	defer sched.SetFreeRunning(false)
	var panicMsg atomic.Pointer[string]
	sched.Guard(func() {
		root, cancel := context.WithCancel(context.Background())
		p := &prog{root: root, n: len(cs.G), cancels: map[int]context.CancelFunc{}, errBoom: errors.New("boom")}
		for _, g := range cs.G {
			for _, op := range g {
				p.variant += op.A
			}
		}
		ops, teardown := td.setup(p)
		done := make(chan struct{})
		go p.monitor(done)
		var wg sync.WaitGroup
		var start atomic.Bool
		for g, prog := range cs.G {
			wg.Add(1)
			go func() {
				defer wg.Done()
				defer p.finished.Add(1)
				defer func() {
					if r := recover(); r != nil {
						buf := make([]byte, 2048)
						n := runtime.Stack(buf, false)
						msg := fmt.Sprintf("%v\n%s", r, buf[:n])
						panicMsg.Store(&msg)
					}
				}()
				for !start.Load() {
					runtime.Gosched()
				}
				for _, op := range prog {
					ops[op.K%len(ops)](g, op.A)
				}
			}()
		}
		start.Store(true)
		wg.Wait()
		close(done)
		if teardown != nil {
			teardown()
		}
		cancel()
	})
	// op-pair coverage per type
	used := map[int]bool{}
	mut := 0
	for _, prog := range cs.G {
		for _, op := range prog {
			used[op.K%12] = true
		}
		if len(prog) > 0 {
			mut++
		}
	}
	if mut >= 2 {
		v.SetNT(P)
	}
	v.Class("type:" + cs.Type)
	for _, r := range newRaces() {
		if !r.IsLib {
			v.Infra = "data race between harness accesses only (harness bug):\n" + r.Text
			continue
		}
		v.Add(P, r.Sig, "data race with a library access in a %s program (%d goroutines):\n%s", cs.Type, len(cs.G), r.Text)
	}
	if pm := panicMsg.Load(); pm != nil && len(v.Viol) == 0 {
		// a panic is not a data race: inconclusive for C13 unless the detector reported a race as well
		v.Infra = "a library call panicked in a " + cs.Type + " program without a race report: " + *pm
	}
	return v
}

func TestC13(t *testing.T) {
	if racePath == "" {
		t.Fatalf("INFRA GORACE log_path is not set (the driver sets it)")
	}
	ev.Drive(t, ev.Runner[Case]{
		Prop: P, ReplayRuns: 100,
		Rule: "client program = {one of 18 concurrency-safe types, 2..8 goroutines x 1..20 ops of its documented concurrent API}; run with real parallelism under the race detector with the verif hook points yielding at random; possibly blocking calls get a context that is cancelled once every goroutine is finished or inside such a call; oracle: a race report counts iff the first non-stdlib frame of at least one access is a non-test library function; non-trivial iff >= 2 goroutines executed >= 1 op each; distinct by program",
		Gen:  genCase,
		Run:  run,
	})
}
