// Package concx decides C18 (conc.ConcurrentQueue).
package concx

import (
	"context"
	"encoding/json"
	"fmt"
	"strings"
	"sync"
	"testing"

	"github.com/aperturerobotics/util/conc"
	"pgregory.net/rapid"
	"verif/harness/ev"
	"verif/harness/sched"
)

const P = "C18"

// Op is one generated operation.
type Op struct {
	K     string `json:"k"` // enqueue finish waitidle watch cancel probe
	N     int    `json:"n,omitempty"`
	Nils  int    `json:"nils,omitempty"` // enqueue: bit k set = entry k of the batch is a nil func (tolerated and skipped by the queue)
	ErrCh bool   `json:"errch,omitempty"`
	Pre   bool   `json:"pre,omitempty"`
	Pick  int    `json:"pick,omitempty"`
}

// Case is a generated history plus schedule.
type Case struct {
	Limit   int    `json:"limit"`
	Initial int    `json:"initial"`
	Ops     []Op   `json:"ops"`
	Sched   []byte `json:"sched"`
}

func genCase(t *rapid.T) Case {
	genOp := rapid.Custom(func(t *rapid.T) Op {
		op := Op{K: rapid.SampledFrom([]string{"enqueue", "enqueue", "enqueue", "finish", "finish", "finish", "waitidle", "waitidle", "watch", "cancel", "errsend", "errclose", "probe"}).Draw(t, "k")}
		switch op.K {
		case "enqueue":
			op.N = rapid.IntRange(0, 4).Draw(t, "n")
			if op.N > 0 && rapid.IntRange(0, 3).Draw(t, "hasnil") == 0 {
				op.Nils = rapid.IntRange(1, 1<<op.N-1).Draw(t, "nils")
			}
		case "finish", "cancel":
			op.Pick = rapid.IntRange(0, 5).Draw(t, "pick")
		case "errclose":
			op.Pick = rapid.IntRange(0, 5).Draw(t, "pick")
		case "errsend":
			op.Pick = rapid.IntRange(0, 5).Draw(t, "pick")
			op.Pre = rapid.Bool().Draw(t, "nilerr") // Pre = send a nil error value
		case "waitidle":
			op.ErrCh = rapid.Bool().Draw(t, "errch")
			op.Pre = rapid.IntRange(0, 11).Draw(t, "pre") == 0
		}
		return op
	})
	return Case{
		Limit:   rapid.SampledFrom([]int{0, 1, 1, 2, 3, -1}).Draw(t, "limit"),
		Initial: rapid.SampledFrom([]int{0, 0, 1, 3}).Draw(t, "initial"),
		Ops:     rapid.SliceOfN(genOp, 2, ev.Pick(20, 60)).Draw(t, "ops"),
		Sched:   sched.GenSchedule(t, ev.Pick(150, 500)),
	}
}

type job struct {
	id        int
	enqSeq    int // position in the global enqueue order (critical-section grant order)
	started   int // number of times the function was entered
	startSeq  int
	finished  bool // FinishJob issued
	returned  bool
	release   chan struct{}
	enqueued  bool // its Enqueue call has returned (or it was an initial element)
	isNil     bool // a nil func: occupies a queue position, is never executed
	consumed  bool // nil entry: a worker has taken it (model, grant order)
	batchDone *bool
}

type observer struct {
	id        int
	kind      string // waitidle | watch
	cancel    context.CancelFunc
	cancelled bool
	chClosed  bool
	errCh     chan error
	sent      []error
	returned  bool
	err       error
	before    []*job // jobs whose Enqueue had returned when the call was issued
	pairs     [][2]int
	label     string
}

func run(t *testing.T, cs Case) *ev.Verdict {
	v := &ev.Verdict{}
	canon, _ := json.Marshal(struct {
		L, I int
		Ops  []Op
	}{cs.Limit, cs.Initial, cs.Ops})
	v.Canon = string(canon)
	c, berr := sched.Run(t, []string{"broadcast.lock", "broadcast.unlocked"}, cs.Sched, func(c *sched.Ctl) { body(c, cs, v) })
	v.Trace = c.Trace()
	if c.Prio {
		v.Class("priority-schedule")
	}
	if c.Mix {
		v.Class("uniform-decisions")
	}
	if c.StepLimit {
		v.Infra = "step limit exceeded"
	}
	if berr != "" && len(v.Viol) == 0 {
		v.Add(P, "conc:leak", "bubble ended with blocked goroutines: %s", berr)
	}
	return v
}

func body(c *sched.Ctl, cs Case, v *ev.Verdict) {
	var hm, vm sync.Mutex
	fail := func(sig, f string, a ...any) {
		vm.Lock()
		v.Add(P, sig, f, a...)
		vm.Unlock()
	}
	limit := cs.Limit
	var jobs []*job
	active, startCounter, enqCounter := 0, 0, 0
	maxActive := 0
	mkJob := func() (*job, func()) {
		j := &job{id: len(jobs), release: make(chan struct{}, 1), enqSeq: -1}
		jobs = append(jobs, j)
		return j, func() {
			c.Adopt(fmt.Sprintf("j%03d", j.id))
			hm.Lock()
			j.started++
			j.startSeq = startCounter
			startCounter++
			active++
			if active > maxActive {
				maxActive = active
			}
			if limit > 0 && active > limit {
				fail("conc:limit-exceeded", "job %d started while %d jobs are executing; limit is %d", j.id, active, limit)
			}
			if j.started > 1 {
				fail("conc:job-twice", "job %d was started %d times", j.id, j.started)
			}
			hm.Unlock()
			<-j.release
			hm.Lock()
			active--
			j.returned = true
			hm.Unlock()
		}
	}
	// model (advanced in critical-section grant order)
	mRunning, mQueued := 0, 0
	var mQueue []*job // FIFO of queued entries (the list is pushed and popped in grant order)
	sawNil := false
	admit := func(js []*job) {
		for _, j := range js {
			if limit <= 0 || mRunning < limit {
				mRunning++
				if j.isNil {
					j.consumed = true // handed to a fresh worker, which skips it
				}
			} else {
				mQueue = append(mQueue, j)
			}
		}
		mQueued = len(mQueue)
	}
	var initFns []func()
	var initJobs []*job
	for i := 0; i < cs.Initial; i++ {
		j, f := mkJob()
		j.enqueued = true
		j.enqSeq = enqCounter
		enqCounter++
		initFns = append(initFns, f)
		initJobs = append(initJobs, j)
	}
	q := conc.NewConcurrentQueue(limit, initFns...)
	if cs.Initial > 0 {
		// the constructor starts as many as the limit allows and queues the rest
		admit(initJobs)
	}
	enqOps := map[string][]*job{}
	var observers []*observer
	obsByLabel := map[string]*observer{}
	overlapEnq := false

	c.OnGrant(func(tk *sched.Ticket) {
		if tk.Point != "broadcast.lock" {
			return
		}
		hm.Lock()
		defer hm.Unlock()
		if js, ok := enqOps[tk.Label]; ok {
			for _, j := range js {
				j.enqSeq = enqCounter
				enqCounter++
			}
			admit(js)
			delete(enqOps, tk.Label)
			for l := range enqOps {
				_ = l
				overlapEnq = true
			}
			return
		}
		if strings.HasPrefix(tk.Label, "j") || tk.Label == "" {
			// a worker's bookkeeping section after a job returned (an unlabelled goroutine
			// is a worker that has only seen nil entries so far)
			if len(mQueue) > 0 {
				if j := mQueue[0]; j.isNil {
					j.consumed = true
				}
				mQueue = mQueue[1:]
				mQueued = len(mQueue)
			} else {
				mRunning--
			}
			return
		}
		if o, ok := obsByLabel[tk.Label]; ok && o.kind == "watch" {
			o.pairs = append(o.pairs, [2]int{mQueued, mRunning})
		}
	})

	checkPair := func(who string, queued, running int) {
		if limit > 0 && running > limit {
			fail("conc:pair-running-over-limit", "%s reported running=%d > limit %d", who, running, limit)
		}
		if queued > 0 && (limit <= 0 || running != limit) {
			fail("conc:pair-queued-while-free", "%s reported queued=%d with running=%d, limit=%d", who, queued, running, limit)
		}
		if queued < 0 || running < 0 {
			fail("conc:pair-negative", "%s reported (%d,%d)", who, queued, running)
		}
	}

	quiescent := func(where string, probe bool) {
		hm.Lock()
		enq, started := 0, 0
		for _, j := range jobs {
			if j.isNil {
				// a nil entry waits in the queue like any other until a worker takes it
				if j.enqSeq >= 0 && !j.consumed {
					enq++
				}
				continue
			}
			if j.enqSeq >= 0 {
				enq++
			}
			if j.started > 0 {
				started++
			}
		}
		act := active
		hm.Unlock()
		if probe {
			qd, rn := q.Enqueue()
			if rn != act || qd != enq-started {
				fail("conc:state-vs-truth", "%s: Enqueue() reports (queued=%d, running=%d); harness sees %d jobs executing and %d enqueued but not started (limit %d)", where, qd, rn, act, enq-started, limit)
				return
			}
			if rn != mRunning || qd != mQueued {
				fail("conc:state-vs-model", "%s: Enqueue() reports (%d,%d), sequential model says (%d,%d)", where, qd, rn, mQueued, mRunning)
				return
			}
		}
		// work conservation: a job is waiting while a slot is free
		if enq-started > 0 && (limit <= 0 || act < limit) {
			fail("conc:queued-while-slot-free", "%s: %d enqueued jobs have not started although only %d of %d slots are busy at full quiescence", where, enq-started, act, limit)
			return
		}
		hm.Lock()
		defer hm.Unlock()
		idle := act == 0 && enq == started
		for _, o := range observers {
			if o.returned {
				continue
			}
			switch {
			case o.cancelled:
				fail("conc:cancelled-not-returned", "%s: %s #%d whose context is cancelled is still blocked", where, o.kind, o.id)
			case o.errCh != nil && len(o.errCh) > 0:
				fail("conc:errch-ignored", "%s: %s #%d is blocked while an error is pending on its error channel", where, o.kind, o.id)
			case idle:
				fail("conc:blocked-while-idle", "%s: %s #%d is blocked at full quiescence although nothing is running or queued", where, o.kind, o.id)
			default:
				continue
			}
			return
		}
	}

	for i, op := range cs.Ops {
		if len(v.Viol) > 0 || c.StepLimit {
			break
		}
		v.OpsTotal++
		eff := true
		label := fmt.Sprintf("o%02d", i)
		switch op.K {
		case "enqueue":
			hm.Lock()
			var js []*job
			var fns []func()
			for k := 0; k < op.N; k++ {
				j, f := mkJob()
				if op.Nils&(1<<k) != 0 {
					j.isNil, f = true, nil
					j.finished = true
					sawNil = true
				}
				js = append(js, j)
				fns = append(fns, f)
			}
			if op.N > 0 {
				enqOps[label] = js
			}
			hm.Unlock()
			c.Go(label, func() {
				qd, rn := q.Enqueue(fns...)
				hm.Lock()
				for _, j := range js {
					j.enqueued = true
				}
				// the batch slice is the caller's: a queue that is handed a slice only reads it
				for k, f := range fns {
					if (f == nil) != js[k].isNil {
						fail("conc:batch-modified", "Enqueue(%d jobs...) changed the caller's slice: entry %d is nil=%v, it was nil=%v", len(fns), k, f == nil, js[k].isNil)
						break
					}
				}
				hm.Unlock()
				checkPair(fmt.Sprintf("Enqueue(%d jobs)", len(fns)), qd, rn)
			})
		case "finish":
			hm.Lock()
			var el []*job
			for _, j := range jobs {
				if j.started > 0 && !j.finished {
					el = append(el, j)
				}
			}
			if len(el) == 0 {
				eff = false
				hm.Unlock()
				break
			}
			j := el[op.Pick%len(el)]
			j.finished = true
			hm.Unlock()
			j.release <- struct{}{}
		case "waitidle", "watch":
			hm.Lock()
			o := &observer{id: len(observers), kind: op.K, label: "w" + label}
			for _, j := range jobs {
				if j.enqueued && !j.isNil {
					o.before = append(o.before, j)
				}
			}
			observers = append(observers, o)
			obsByLabel[o.label] = o
			hm.Unlock()
			ctx, cancel := context.WithCancel(context.Background())
			o.cancel = cancel
			if op.Pre {
				cancel()
				o.cancelled = true
			}
			if op.ErrCh {
				o.errCh = make(chan error, 1)
			}
			c.Go(o.label, func() {
				var errCh <-chan error
				if o.errCh != nil {
					errCh = o.errCh
				}
				var err error
				if o.kind == "waitidle" {
					err = q.WaitIdle(ctx, errCh)
				} else {
					n := 0
					err = q.WatchState(ctx, errCh, func(queued, running int) (bool, error) {
						checkPair("WatchState callback", queued, running)
						hm.Lock()
						if n < len(o.pairs) {
							if want := o.pairs[n]; want != [2]int{queued, running} {
								fail("conc:watch-vs-model", "WatchState callback %d of watcher #%d got (%d,%d), the model at that critical section says (%d,%d)", n, o.id, queued, running, want[0], want[1])
							}
						}
						n++
						hm.Unlock()
						return queued+running > 0, nil
					})
				}
				hm.Lock()
				defer hm.Unlock()
				o.returned, o.err = true, err
				if err == nil {
					for _, j := range o.before {
						if !j.returned {
							fail("conc:idle-with-unfinished-job", "%s #%d returned nil although job %d, enqueued before the call, has not finished", o.kind, o.id, j.id)
							break
						}
					}
				} else if err == context.Canceled {
					if !o.cancelled {
						fail("conc:spurious-cancel", "%s #%d returned context.Canceled although its context is live", o.kind, o.id)
					}
				} else {
					for _, e := range o.sent {
						if e == err {
							return
						}
					}
					fail("conc:unknown-error", "%s #%d returned unexpected error %v", o.kind, o.id, err)
				}
			})
		case "cancel":
			hm.Lock()
			var el []*observer
			for _, o := range observers {
				if !o.returned && !o.cancelled {
					el = append(el, o)
				}
			}
			if len(el) == 0 {
				eff = false
				hm.Unlock()
				break
			}
			o := el[op.Pick%len(el)]
			o.cancelled = true
			hm.Unlock()
			o.cancel()
		case "errclose":
			// the error channel is closed while the context is live: documented to be treated
			// like a cancellation (so the observer is "cancelled" from here on)
			hm.Lock()
			var elc []*observer
			for _, o := range observers {
				if !o.returned && !o.cancelled && o.errCh != nil && len(o.errCh) == 0 && o.kind == "waitidle" {
					elc = append(elc, o)
				}
			}
			if len(elc) == 0 {
				eff = false
				hm.Unlock()
				break
			}
			oc := elc[op.Pick%len(elc)]
			oc.cancelled, oc.chClosed = true, true
			hm.Unlock()
			close(oc.errCh)
		case "errsend":
			hm.Lock()
			var el []*observer
			for _, o := range observers {
				if !o.returned && !o.chClosed && o.errCh != nil && len(o.errCh) == 0 {
					el = append(el, o)
				}
			}
			if len(el) == 0 {
				eff = false
				hm.Unlock()
				break
			}
			o := el[op.Pick%len(el)]
			var e error
			if !op.Pre {
				e = fmt.Errorf("errch-error-%d-%d", o.id, i)
				o.sent = append(o.sent, e)
			}
			hm.Unlock()
			o.errCh <- e
		case "probe":
			if c.Settle(true) {
				quiescent(fmt.Sprintf("probe op %d", i), true)
			}
		}
		if eff {
			v.OpsEffective++
		}
		if c.Settle(false) {
			quiescent(fmt.Sprintf("after op %d", i), false)
		}
	}
	if len(v.Viol) == 0 && !c.StepLimit && c.Settle(true) {
		quiescent("end", true)
	}
	if p := c.Panics(); p != "" {
		fail("conc:panic", "operation panicked: %s", p)
	}
	hadViol := len(v.Viol) > 0
	// drain: finish every job (controlled, so that the limit-1 order stays meaningful)
	for round := 0; round < 400 && !hadViol && !c.StepLimit; round++ {
		c.Settle(true)
		hm.Lock()
		var next *job
		for _, j := range jobs {
			if j.started > 0 && !j.finished {
				next = j
				break
			}
		}
		if next != nil {
			next.finished = true
		}
		hm.Unlock()
		if next == nil {
			break
		}
		next.release <- struct{}{}
	}
	if !hadViol && !c.StepLimit && len(v.Viol) == 0 {
		quiescent("after drain", true)
		hm.Lock()
		for _, j := range jobs {
			if j.isNil {
				if j.started != 0 {
					fail("conc:nil-called", "nil entry %d was executed", j.id)
				}
				continue
			}
			if j.enqSeq >= 0 && j.started != 1 {
				fail("conc:job-not-run-once", "job %d (enqueue position %d) ran %d times after everything drained", j.id, j.enqSeq, j.started)
				break
			}
		}
		if limit == 1 {
			for _, a := range jobs {
				for _, b := range jobs {
					if a.enqSeq >= 0 && b.enqSeq >= 0 && a.started == 1 && b.started == 1 && a.enqSeq < b.enqSeq && a.startSeq > b.startSeq {
						fail("conc:fifo-order", "limit 1: job %d was enqueued before job %d (positions %d < %d) but started after it", a.id, b.id, a.enqSeq, b.enqSeq)
					}
				}
			}
		}
		for _, o := range observers {
			if !o.returned && !o.cancelled {
				fail("conc:observer-blocked-after-drain", "%s #%d still blocked after every job finished", o.kind, o.id)
				break
			}
		}
		hm.Unlock()
	}
	c.PassThrough()
	hm.Lock()
	for _, j := range jobs {
		if !j.finished && !j.isNil {
			j.finished = true
			j.release <- struct{}{}
		}
	}
	for _, o := range observers {
		if !o.returned && !o.cancelled {
			o.cancelled = true
			o.cancel()
		}
	}
	hm.Unlock()
	c.Wait()
	// jobs that were queued start now; release is buffered so they finish on their own
	if len(jobs) >= 2 && (maxActive >= 2 || (limit > 0 && maxActive == limit)) {
		v.SetNT(P)
	}
	if limit > 0 && maxActive == limit {
		v.Class("limit-reached")
	}
	if overlapEnq {
		v.Class("overlapping-enqueues")
	}
	if sawNil {
		v.Class("nil-entries-in-a-batch")
	}
	if limit == 1 {
		v.Class("limit-1")
	}
	if limit <= 0 {
		v.Class("unlimited")
	}
}

func TestC18(t *testing.T) {
	ev.Drive(t, ev.Runner[Case]{
		Prop: P,
		Rule: "limit in {unlimited,1,2,3}, 0..3 initial elements; ops Enqueue(batch 0..4, some entries nil), FinishJob(pick running), WaitIdle/WatchState observers with contexts and error channels, Cancel, Probe; jobs block until finished by the generator; sequential (queued,running) model advanced in critical-section grant order; non-trivial iff >= 2 jobs and (>= 2 ran concurrently or the limit was reached); distinct by hash(case, realised grant trace)",
		Gen:  genCase,
		Run:  run,
	})
}
