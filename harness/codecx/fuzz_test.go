package codecx

import (
	"testing"

	"verif/harness/ev"
)

func failIf(t *testing.T, v *ev.Verdict) {
	if viol := v.For(P); viol != nil {
		t.Fatalf("VIOL property=%s sig=%s %s", P, viol.Sig, viol.Msg)
	}
}

func FuzzC19Unpad(f *testing.F) {
	for _, n := range []int{0, 1, 2, 31, 32, 33, 63, 64} {
		for _, tr := range []byte{0, 1, 30, 31, 32, 255} {
			b := make([]byte, n)
			if n > 0 {
				b[n-1] = tr
			}
			f.Add(b)
		}
	}
	f.Fuzz(func(t *testing.T, data []byte) {
		v := &ev.Verdict{}
		checkUnpad(v, UnpadCase{Data: data})
		failIf(t, v)
	})
}

func FuzzC19Pad(f *testing.F) {
	for _, n := range []int{0, 1, 30, 31, 32, 33, 63, 64, 65} {
		f.Add(make([]byte, n), uint8(0))
		f.Add(make([]byte, n), uint8(40))
	}
	f.Fuzz(func(t *testing.T, data []byte, spare uint8) {
		v := &ev.Verdict{}
		checkPad(v, PadCase{Data: data, Spare: int(spare)})
		failIf(t, v)
	})
}

func FuzzC19Prefix(f *testing.F) {
	f.Add([]byte("abc"), []byte("abd"), []byte("ab"), uint8(3))
	f.Add([]byte("\xc3\xa9x"), []byte("\xc3\xa9y"), []byte("\xc3\xa9"), uint8(3))
	f.Add([]byte("\xff\xfe"), []byte("\xff\xfe\x00"), []byte{}, uint8(2))
	f.Add([]byte{}, []byte{}, []byte{}, uint8(0))
	f.Fuzz(func(t *testing.T, a, b, c []byte, n uint8) {
		all := [][]byte{a, b, c}
		v := &ev.Verdict{}
		checkPrefix(v, PrefixCase{Strs: all[:int(n)%4]})
		failIf(t, v)
	})
}

func FuzzC19Prng(f *testing.F) {
	f.Add([]byte("seed"), uint16(100), uint8(3), uint8(8))
	f.Add([]byte{}, uint16(17), uint8(1), uint8(7))
	f.Fuzz(func(t *testing.T, seed []byte, total uint16, ca, cb uint8) {
		v := &ev.Verdict{}
		checkPrng(v, PrngCase{Seed: [][]byte{seed}, Total: int(total) % 2000, ChunkA: []int{int(ca)%20 + 1}, ChunkB: []int{int(cb)%20 + 1, 3}})
		failIf(t, v)
	})
}
