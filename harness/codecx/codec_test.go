// Package codecx decides C19 (padding, commonprefix, prng).
package codecx

import (
	"bytes"
	"encoding/binary"
	"fmt"
	"io"
	"strings"
	"sync"
	"sync/atomic"
	"testing"

	"github.com/aperturerobotics/util/commonprefix"
	"github.com/aperturerobotics/util/padding"
	"github.com/aperturerobotics/util/prng"
	"pgregory.net/rapid"
	"verif/harness/ev"
	"verif/harness/sched"
)

const P = "C19"

// ---------- padding ----------

// PadCase is an input for PadInPlace.
type PadCase struct {
	Data  []byte `json:"data"`
	Spare int    `json:"spare"` // spare capacity filled with garbage
}

func genLen(t *rapid.T, max int) int {
	switch rapid.IntRange(0, 5).Draw(t, "lenclass") {
	case 0:
		return rapid.IntRange(0, 2).Draw(t, "len")
	case 1:
		return 32*rapid.IntRange(1, 4).Draw(t, "blk") + rapid.IntRange(-3, 3).Draw(t, "off")
	case 2:
		return rapid.IntRange(0, 70).Draw(t, "len")
	default:
		return rapid.IntRange(0, max).Draw(t, "len")
	}
}

func genBytes(t *rapid.T, n int) []byte {
	if n < 0 {
		n = 0
	}
	return rapid.SliceOfN(rapid.Byte(), n, n).Draw(t, "bytes")
}

func genPad(t *rapid.T) PadCase {
	n := genLen(t, ev.Pick(300, 4096))
	return PadCase{Data: genBytes(t, n), Spare: rapid.SampledFrom([]int{0, 0, 1, 31, 32, 33, 64, 100}).Draw(t, "spare")}
}

func guard(v *ev.Verdict, sig string, f func()) {
	defer func() {
		if r := recover(); r != nil {
			v.Add(P, sig, "panic: %v", r)
		}
	}()
	f()
}

func checkPad(v *ev.Verdict, c PadCase) {
	x := c.Data
	buf := make([]byte, len(x), len(x)+c.Spare)
	copy(buf, x)
	full := buf[:cap(buf)]
	for i := len(x); i < len(full); i++ {
		full[i] = 0xA5 // garbage in the spare capacity
	}
	guard(v, "padding:pad-panic", func() {
		p := padding.PadInPlace(buf)
		if len(p) == 0 || len(p)%32 != 0 {
			v.Add(P, "padding:length", "len(PadInPlace(x))=%d for len(x)=%d is not a positive multiple of 32", len(p), len(x))
			return
		}
		if !bytes.HasPrefix(p, x) {
			v.Add(P, "padding:prefix", "PadInPlace(x) does not start with x (len(x)=%d spare=%d)", len(x), c.Spare)
			return
		}
		guard(v, "padding:unpad-panic-on-padded", func() {
			u, err := padding.UnpadInPlace(p)
			if err != nil {
				v.Add(P, "padding:roundtrip-rejected", "UnpadInPlace(PadInPlace(x)) failed for len(x)=%d: %v", len(x), err)
				return
			}
			if !bytes.Equal(u, x) {
				v.Add(P, "padding:roundtrip-mismatch", "UnpadInPlace(PadInPlace(x)) != x for len(x)=%d: got len %d", len(x), len(u))
			}
		})
		if len(v.Viol) != 0 {
			return
		}
		// the caller owns what PadInPlace returned (it is encrypted in place, say): whatever is
		// written there, padding x once more from a buffer of its own gives a padded x again
		for i := range p {
			p[i] = 0x5A
		}
		buf2 := make([]byte, len(x), len(x)+c.Spare)
		copy(buf2, x)
		p2 := padding.PadInPlace(buf2)
		if len(p2) == 0 || len(p2)%32 != 0 || !bytes.HasPrefix(p2, x) {
			v.Add(P, "padding:result-shared", "after the first result was overwritten, PadInPlace of a fresh copy of x (len %d, spare %d) has length %d / no longer starts with x", len(x), c.Spare, len(p2))
			return
		}
		if u2, err := padding.UnpadInPlace(p2); err != nil || !bytes.Equal(u2, x) {
			v.Add(P, "padding:result-shared", "after the first result was overwritten, UnpadInPlace(PadInPlace(fresh copy of x)) gives len %d, %v for len(x)=%d spare=%d", len(u2), err, len(x), c.Spare)
		}
	})
	if len(x)%32 == 0 || len(x)%32 >= 30 || c.Spare > 0 {
		v.SetNT(P)
	}
	if c.Spare > 0 {
		v.Class("pad-spare-capacity")
	}
	if len(x) == 0 {
		v.Class("pad-empty")
	}
}

// UnpadCase is an arbitrary input for UnpadInPlace.
type UnpadCase struct {
	Data []byte `json:"data"`
}

func genUnpad(t *rapid.T) UnpadCase {
	n := genLen(t, ev.Pick(200, 2048))
	b := genBytes(t, n)
	if len(b) > 0 && rapid.Bool().Draw(t, "trailerBias") {
		b[len(b)-1] = rapid.SampledFrom([]byte{0, 1, 30, 31, 32, 33, 255, byte(len(b) - 1), byte(len(b)), byte(len(b) - 2)}).Draw(t, "trailer")
	}
	return UnpadCase{Data: b}
}

func checkUnpad(v *ev.Verdict, c UnpadCase) {
	in := append([]byte(nil), c.Data...)
	guard(v, "padding:unpad-panic", func() {
		u, err := padding.UnpadInPlace(in)
		if err != nil {
			return
		}
		if len(in) == 0 {
			v.Add(P, "padding:unpad-empty-ok", "UnpadInPlace(empty) succeeded")
			return
		}
		pl := int(in[len(in)-1])
		if len(u) != len(in)-pl-1 || len(u) < 0 {
			v.Add(P, "padding:unpad-length", "UnpadInPlace returned %d bytes for input of %d with trailer %d", len(u), len(in), pl)
			return
		}
		if !bytes.Equal(u, c.Data[:len(u)]) {
			v.Add(P, "padding:unpad-content", "UnpadInPlace result is not a prefix of its input")
		}
	})
	if len(c.Data) == 0 || int(c.Data[len(c.Data)-1]) >= len(c.Data)-2 {
		v.SetNT(P)
		v.Class("unpad-boundary-trailer")
	}
}

// ---------- commonprefix ----------

// PrefixCase is a list of strings (arbitrary bytes).
type PrefixCase struct {
	Strs [][]byte `json:"strs"`
}

func genPrefix(t *rapid.T) PrefixCase {
	alpha := rapid.SampledFrom([]byte{'a', 'b', 0x00, 0x7f, 0x80, 0xc3, 0xa9, 0xff, 0xe2, 0x82})
	common := rapid.SliceOfN(alpha, 0, 6).Draw(t, "common")
	n := rapid.IntRange(0, 5).Draw(t, "n")
	var c PrefixCase
	for i := 0; i < n; i++ {
		s := append([]byte(nil), common...)
		if rapid.IntRange(0, 4).Draw(t, "cut") == 0 && len(s) > 0 {
			s = s[:rapid.IntRange(0, len(s)).Draw(t, "cutAt")]
		}
		s = append(s, rapid.SliceOfN(alpha, 0, 4).Draw(t, "tail")...)
		c.Strs = append(c.Strs, s)
	}
	return c
}

func naiveLCP(strs []string) string {
	if len(strs) == 0 {
		return ""
	}
	p := strs[0]
	for _, s := range strs[1:] {
		i := 0
		for i < len(p) && i < len(s) && p[i] == s[i] {
			i++
		}
		p = p[:i]
	}
	return p
}

func strsOf(c PrefixCase) []string {
	out := make([]string, len(c.Strs))
	for i, b := range c.Strs {
		out[i] = string(b)
	}
	return out
}

func checkPrefix(v *ev.Verdict, c PrefixCase) {
	strs := strsOf(c)
	want := naiveLCP(strs)
	guard(v, "commonprefix:panic", func() {
		orig := append([]string(nil), strs...)
		got := commonprefix.Prefix(strs...)
		if got != want {
			v.Add(P, "commonprefix:prefix", "Prefix(%q) = %q, longest common prefix is %q", orig, got, want)
			return
		}
		// Prefix only looks at its arguments (a caller that passes a slice keeps it as it was)
		for i := range orig {
			if strs[i] != orig[i] {
				v.Add(P, "commonprefix:arguments-modified", "Prefix(%q...) changed the caller's slice: element %d is now %q", orig, i, strs[i])
				return
			}
		}
		out := append([]string(nil), orig...)
		commonprefix.TrimPrefix(out...)
		for i := range out {
			if want+out[i] != orig[i] {
				v.Add(P, "commonprefix:trim", "TrimPrefix(%q)[%d] = %q; expected %q with prefix %q removed", orig, i, out[i], orig[i], want)
				return
			}
		}
	})
	hi := false
	for i := 0; i < len(want); i++ {
		if want[i] >= 0x80 {
			hi = true
		}
	}
	if len(strs) >= 2 && len(want) > 0 {
		v.SetNT(P)
	}
	if hi {
		v.Class("prefix-high-bytes")
	}
}

// ---------- prng ----------

// PrngCase is seed data plus two read chunkings.
type PrngCase struct {
	Seed   [][]byte `json:"seed"`
	ChunkA []int    `json:"a"`
	ChunkB []int    `json:"b"`
	Total  int      `json:"total"`
	// Layout, when non-empty, places the seed parts in one backing buffer: part i lives at
	// offset Layout[i] (parts may be adjacent, leaving the earlier ones spare capacity that
	// holds the later ones)
	Layout []int `json:"layout,omitempty"`
}

func genPrng(t *rapid.T) PrngCase {
	var c PrngCase
	c.Seed = rapid.SliceOfN(rapid.SliceOfN(rapid.Byte(), 0, 8), 0, 3).Draw(t, "seed")
	if len(c.Seed) >= 2 && rapid.IntRange(0, 2).Draw(t, "aliased") == 0 {
		// a permutation of the parts inside one buffer, with generated gaps
		perm := rapid.Permutation([]int{0, 1, 2}[:len(c.Seed)]).Draw(t, "perm")
		c.Layout = make([]int, len(c.Seed))
		off := 0
		for _, i := range perm {
			off += rapid.IntRange(0, 2).Draw(t, "gap")
			c.Layout[i] = off
			off += len(c.Seed[i])
		}
	}
	c.Total = rapid.IntRange(0, ev.Pick(100, 600)).Draw(t, "total")
	c.ChunkA = rapid.SliceOfN(rapid.IntRange(0, 19), 1, 12).Draw(t, "a")
	c.ChunkB = rapid.SliceOfN(rapid.IntRange(0, 19), 1, 12).Draw(t, "b")
	return c
}

func readChunked(r io.Reader, total int, chunks []int) ([]byte, error) {
	out := make([]byte, 0, total)
	i := 0
	stall := 0
	sum := 0
	for _, n := range chunks {
		sum += n
	}
	for len(out) < total {
		n := chunks[i%len(chunks)]
		if sum == 0 {
			n = 1
		}
		i++
		if n > total-len(out) {
			n = total - len(out)
		}
		buf := make([]byte, n)
		m, err := r.Read(buf)
		if err != nil {
			return out, err
		}
		if m > n {
			return out, fmt.Errorf("Read returned %d > len(p)=%d", m, n)
		}
		if m == 0 && n > 0 {
			stall++
			if stall > 1000 {
				return out, fmt.Errorf("Read makes no progress")
			}
		}
		out = append(out, buf[:m]...)
	}
	return out, nil
}

func checkPrng(v *ev.Verdict, c PrngCase) {
	guard(v, "prng:panic", func() {
		seed2 := make([][]byte, len(c.Seed))
		for i := range c.Seed {
			seed2[i] = append([]byte(nil), c.Seed[i]...)
		}
		if len(c.Layout) == len(c.Seed) && len(c.Seed) > 0 {
			// the caller's seed parts are windows of one buffer: equal seed data all the same,
			// and the buffer belongs to the caller
			end := 0
			for i, o := range c.Layout {
				if o+len(c.Seed[i]) > end {
					end = o + len(c.Seed[i])
				}
			}
			backing := make([]byte, end+4)
			for i := range backing {
				backing[i] = 0x5a
			}
			for i, o := range c.Layout {
				copy(backing[o:], c.Seed[i])
			}
			orig := append([]byte(nil), backing...)
			al := make([][]byte, len(c.Seed))
			for i, o := range c.Layout {
				al[i] = backing[o : o+len(c.Seed[i])]
			}
			sa, sc := prng.BuildSeededRand(al...), prng.BuildSeededRand(seed2...)
			if !bytes.Equal(backing, orig) {
				v.Add(P, "prng:seed-buffer-modified", "BuildSeededRand changed the caller's seed buffer (layout %v)", c.Layout)
				return
			}
			for i := 0; i < 4; i++ {
				if sa.Uint64() != sc.Uint64() {
					v.Add(P, "prng:source-diverges", "a source built from seed parts that share one buffer (layout %v) differs from the source built from copies of the same data at word %d", c.Layout, i)
					return
				}
			}
			rd := prng.BuildSeededReader(al...)
			if !bytes.Equal(backing, orig) {
				v.Add(P, "prng:seed-buffer-modified", "BuildSeededReader changed the caller's seed buffer (layout %v)", c.Layout)
				return
			}
			got, err := readChunked(rd, 16, []int{5})
			want, _ := readChunked(prng.BuildSeededReader(seed2...), 16, []int{16})
			if err != nil || !bytes.Equal(got, want) {
				v.Add(P, "prng:chunking", "a reader built from seed parts that share one buffer (layout %v) differs from the reader built from copies (err %v)", c.Layout, err)
				return
			}
			v.Class("prng-aliased-seed-parts")
		}
		s1, s2 := prng.BuildSeededRand(c.Seed...), prng.BuildSeededRand(seed2...)
		words := (c.Total + 7) / 8
		ref := make([]byte, 0, words*8)
		for i := 0; i < words; i++ {
			a, b := s1.Uint64(), s2.Uint64()
			if a != b {
				v.Add(P, "prng:source-diverges", "two sources from equal seed data differ at word %d", i)
				return
			}
			ref = binary.LittleEndian.AppendUint64(ref, a)
		}
		ref = ref[:c.Total]
		ra, rb := prng.BuildSeededReader(c.Seed...), prng.BuildSeededReader(seed2...)
		// the caller reuses its seed buffers after construction: the stream is defined by the
		// seed data given to the constructor, not by what the buffers hold at the first Read
		for i := range seed2 {
			for k := range seed2[i] {
				seed2[i][k] ^= 0xa5
			}
			if i > 0 {
				seed2[i] = nil
			}
		}
		a, err := readChunked(ra, c.Total, c.ChunkA)
		if err != nil {
			v.Add(P, "prng:read-error", "reader A: %v", err)
			return
		}
		b, err := readChunked(rb, c.Total, c.ChunkB)
		if err != nil {
			v.Add(P, "prng:read-error", "reader B: %v", err)
			return
		}
		if !bytes.Equal(a, b) {
			v.Add(P, "prng:chunking", "streams from equal seeds differ between chunkings %v and %v (total %d)", c.ChunkA, c.ChunkB, c.Total)
			return
		}
		if !bytes.Equal(a, ref) {
			v.Add(P, "prng:stream-vs-source", "reader stream differs from the little-endian bytes of the source (chunks %v, total %d)", c.ChunkA, c.Total)
		}
	})
	odd := false
	for _, n := range append(append([]int{}, c.ChunkA...), c.ChunkB...) {
		if n%8 != 0 {
			odd = true
		}
	}
	if odd && c.Total > 8 {
		v.SetNT(P)
		v.Class("prng-unaligned-chunks")
	}
}

// ---------- tests ----------

func drive[C any](t *testing.T, rule string, gen func(*rapid.T) C, chk func(*ev.Verdict, C)) {
	ev.Drive(t, ev.Runner[C]{
		Prop: P, Rule: rule, Gen: gen, ReplayRuns: 1,
		Run: func(t *testing.T, c C) *ev.Verdict {
			v := &ev.Verdict{}
			sched.Guard(func() { chk(v, c) })
			return v
		},
	})
}

func TestC19Pad(t *testing.T) {
	drive(t, "x = bytes with length biased to 0..2, 32k±3, <=70, up to 4 KiB, with garbage-filled spare capacity; oracle: length multiple of 32, prefix, round trip; non-trivial iff len%32 in {0,30,31} or spare capacity > 0; distinct by input", genPad, checkPad)
}

func TestC19Unpad(t *testing.T) {
	drive(t, "arbitrary bytes with boundary-biased trailer byte; oracle: no panic, success implies result = input[:len-trailer-1]; non-trivial iff empty or trailer >= len-2; distinct by input", genUnpad, checkUnpad)
}

func TestC19Prefix(t *testing.T) {
	drive(t, "0..5 byte strings over an alphabet with NUL, 0x7f and bytes >= 0x80 (valid and invalid UTF-8) sharing a generated prefix; oracle: naive byte-wise longest common prefix, TrimPrefix removes exactly it; non-trivial iff >= 2 strings with a non-empty common prefix; distinct by input", genPrefix, checkPrefix)
}

func TestC19Prng(t *testing.T) {
	drive(t, "seed = 0..3 byte slices; two readers from equal seeds read with different generated chunkings, compared with each other and with the little-endian bytes of a third source; non-trivial iff some chunk size is not a multiple of 8 and total > 8; distinct by input", genPrng, checkPrng)
}

// PrngParCase: goroutines build sources from the same few seeds at the same time.
type PrngParCase struct {
	Seeds  [][][]byte `json:"seeds"`
	G      int        `json:"g"`
	Rounds int        `json:"rounds"`
}

func genPrngPar(t *rapid.T) PrngParCase {
	seed := rapid.SliceOfN(rapid.SliceOfN(rapid.Byte(), 0, 8), 0, 3)
	return PrngParCase{
		Seeds:  rapid.SliceOfN(seed, 1, 4).Draw(t, "seeds"),
		G:      rapid.SampledFrom([]int{2, 3, 4, 8, 16, 16, 32, 48}).Draw(t, "g"),
		Rounds: rapid.SampledFrom([]int{50, 200, 1000, 3000}).Draw(t, "rounds"),
	}
}

// checkPrngPar: "equal seed data gives equal streams" must also hold when the
// sources are built concurrently (the constructors share no documented state).
func checkPrngPar(v *ev.Verdict, c PrngParCase) {
	guard(v, "prng:panic", func() {
		ref := make([][4]uint64, len(c.Seeds))
		for i, sd := range c.Seeds {
			src := prng.BuildSeededRand(sd...)
			for k := range ref[i] {
				ref[i][k] = src.Uint64()
			}
		}
		var wg sync.WaitGroup
		var bad atomic.Int64
		for g := 0; g < c.G; g++ {
			wg.Add(1)
			go func() {
				defer wg.Done()
				for r := 0; r < c.Rounds && bad.Load() == 0; r++ {
					i := (g + r) % len(c.Seeds)
					src := prng.BuildSeededRand(c.Seeds[i]...)
					for k := range ref[i] {
						if src.Uint64() != ref[i][k] {
							bad.Store(int64(i) + 1)
							return
						}
					}
				}
			}()
		}
		wg.Wait()
		if b := bad.Load(); b != 0 {
			v.Add(P, "prng:source-diverges", "a source built from seed set %d while %d goroutines build sources concurrently differs from the source built from the same seed data before", b-1, c.G)
		}
	})
	if c.G >= 2 {
		v.SetNT(P)
		v.Class("prng-concurrent-construction")
	}
}

// PrefixParCase: goroutines call Prefix / TrimPrefix on their own arguments at the same time.
type PrefixParCase struct {
	Sets [][]string `json:"sets"`
	G    int        `json:"g"`
	R    int        `json:"r"`
}

func genPrefixPar(t *rapid.T) PrefixParCase {
	set := rapid.Custom(func(t *rapid.T) []string {
		pre := rapid.StringN(0, 40, 60).Draw(t, "pre")
		n := rapid.IntRange(2, 4).Draw(t, "n")
		var out []string
		for i := 0; i < n; i++ {
			out = append(out, pre+fmt.Sprintf("%d", i)+rapid.StringN(0, 8, 16).Draw(t, "suf"))
		}
		return out
	})
	return PrefixParCase{
		Sets: rapid.SliceOfN(set, 2, 4).Draw(t, "sets"),
		G:    rapid.SampledFrom([]int{2, 3, 4, 8, 12, 32, 48}).Draw(t, "g"),
		R:    rapid.SampledFrom([]int{20, 100, 400}).Draw(t, "r"),
	}
}

func checkPrefixPar(v *ev.Verdict, c PrefixParCase) {
	guard(v, "prefix:panic", func() {
		want := make([]string, len(c.Sets))
		for i, st := range c.Sets {
			want[i] = naiveLCP(st)
		}
		var wg sync.WaitGroup
		var bad atomic.Int64
		for g := 0; g < c.G; g++ {
			wg.Add(1)
			go func() {
				defer wg.Done()
				for r := 0; r < c.R && bad.Load() == 0; r++ {
					i := (g + r) % len(c.Sets)
					if commonprefix.Prefix(c.Sets[i]...) != want[i] {
						bad.Store(int64(i) + 1)
						return
					}
				}
			}()
		}
		wg.Wait()
		if b := bad.Load(); b != 0 {
			v.Add(P, "prefix:not-longest-common-prefix", "Prefix of argument set %d differs from the byte-wise longest common prefix while %d goroutines call Prefix concurrently on their own arguments", b-1, c.G)
		}
	})
	v.SetNT(P)
	v.Class("prefix-concurrent-callers")
}

// PadParCase: goroutines pad and unpad their own messages at the same time.
type PadParCase struct {
	Lens  []int `json:"lens"`
	Spare []int `json:"spare"`
	G     int   `json:"g"`
	R     int   `json:"r"`
}

func genPadPar(t *rapid.T) PadParCase {
	n := rapid.IntRange(2, 6).Draw(t, "n")
	c := PadParCase{G: rapid.SampledFrom([]int{2, 3, 4, 8, 16, 16, 32, 48}).Draw(t, "g"), R: rapid.SampledFrom([]int{50, 300, 2000}).Draw(t, "r")}
	for i := 0; i < n; i++ {
		c.Lens = append(c.Lens, genLen(t, 100))
		c.Spare = append(c.Spare, rapid.SampledFrom([]int{0, 0, 1, 5, 40}).Draw(t, "spare"))
	}
	return c
}

// checkPadPar: the round trip is a statement about each call's own argument; callers that
// pad their own buffers at the same time must each get their own message back.
func checkPadPar(v *ev.Verdict, c PadParCase) {
	guard(v, "padding:pad-panic", func() {
		var wg sync.WaitGroup
		var bad atomic.Int64
		for g := 0; g < c.G; g++ {
			wg.Add(1)
			go func() {
				defer wg.Done()
				defer func() {
					if r := recover(); r != nil {
						bad.Store(-1)
					}
				}()
				for r := 0; r < c.R && bad.Load() == 0; r++ {
					i := (g + r) % len(c.Lens)
					x := make([]byte, c.Lens[i], c.Lens[i]+c.Spare[i])
					for k := range x {
						x[k] = byte(g*31 + k + r)
					}
					want := append([]byte(nil), x...)
					p := padding.PadInPlace(x)
					if len(p) == 0 || len(p)%32 != 0 || !bytes.HasPrefix(p, want) {
						bad.Store(int64(i) + 1)
						return
					}
					u, err := padding.UnpadInPlace(p)
					if err != nil || !bytes.Equal(u, want) {
						bad.Store(int64(i) + 1)
						return
					}
				}
			}()
		}
		wg.Wait()
		if b := bad.Load(); b > 0 {
			v.Add(P, "padding:roundtrip-mismatch", "PadInPlace/UnpadInPlace of a message of length %d (spare %d) did not round-trip while %d goroutines pad their own messages concurrently", c.Lens[b-1], c.Spare[b-1], c.G)
		} else if b < 0 {
			v.Add(P, "padding:pad-panic", "PadInPlace/UnpadInPlace panicked while %d goroutines pad their own messages concurrently", c.G)
		}
	})
	v.SetNT(P)
	v.Class("pad-concurrent-callers")
}

func TestC19PadPar(t *testing.T) {
	drive(t, "2..6 message lengths (boundary-biased) with 0..40 bytes of spare capacity, 2..48 goroutines each padding and unpadding their own fresh buffers 50..2000 times in parallel; oracle: every call's result is a positive multiple of 32 long, starts with the caller's message and unpads to it; non-trivial always; distinct by input", genPadPar, checkPadPar)
}

func TestC19PrefixPar(t *testing.T) {
	drive(t, "2..4 argument sets with long common prefixes, 2..48 goroutines each calling Prefix 20..400 times on them in parallel; oracle: every result equals the byte-wise longest common prefix computed beforehand; non-trivial always; distinct by input", genPrefixPar, checkPrefixPar)
}

func TestC19PrngPar(t *testing.T) {
	drive(t, "1..4 seed sets, 2..48 goroutines (more than there are processors) each building 50..3000 sources from them in parallel; oracle: the first four words of every source equal those of a source built from the same seed data sequentially; non-trivial iff >= 2 goroutines; distinct by input", genPrngPar, checkPrngPar)
}

var _ = strings.Join
