// Package promisex decides C11 (Promise, PromiseContainer) and C16 (Once, MemoizeFunc).
package promisex

import (
	"context"
	"encoding/json"
	"fmt"
	"sync"
	"testing"

	"github.com/aperturerobotics/util/promise"
	"pgregory.net/rapid"
	"verif/harness/ev"
	"verif/harness/sched"
)

// Op is one generated operation of the promise machine.
type Op struct {
	K    string `json:"k"`              // set await cancel fire setpromise setresult
	Err  string `json:"err,omitempty"`  // set/setresult: "" | custom | canceled | deadline
	Kind string `json:"kind,omitempty"` // await: plain | errch | cancelch
	Fire string `json:"fire,omitempty"` // fire: send | close | nil (a nil error is sent on the error channel)
	New  string `json:"new,omitempty"`  // setpromise: new | nil | same
	Pre  bool   `json:"pre,omitempty"`
	Pick int    `json:"pick,omitempty"`
}

// Case is a generated history plus schedule.
type Case struct {
	Container bool   `json:"container"`
	Wrap      bool   `json:"wrap,omitempty"`   // container: every promise is installed through a wrapper type (a PromiseLike that is not a *Promise)
	PreRes    string `json:"preres,omitempty"` // user-made promises come from NewPromiseWithResult: "" (no) | val | custom | canceled
	Ops       []Op   `json:"ops"`
	Sched     []byte `json:"sched"`
}

func genCase(t *rapid.T) Case {
	c := Case{Container: rapid.Bool().Draw(t, "container")}
	c.Wrap = c.Container && rapid.IntRange(0, 3).Draw(t, "wrap") == 0
	c.PreRes = rapid.SampledFrom([]string{"", "", "", "", "", "val", "custom", "canceled", "nilerr"}).Draw(t, "preres")
	kinds := []string{"set", "set", "await", "await", "await", "cancel", "fire"}
	if c.Container {
		kinds = []string{"set", "set", "await", "await", "await", "cancel", "fire", "setpromise", "setpromise", "setresult"}
	}
	genOp := rapid.Custom(func(t *rapid.T) Op {
		op := Op{K: rapid.SampledFrom(kinds).Draw(t, "k")}
		switch op.K {
		case "set", "setresult":
			op.Err = rapid.SampledFrom([]string{"", "", "custom", "canceled", "deadline", "wrapcanceled", "wrapdeadline"}).Draw(t, "err")
			op.Pick = rapid.IntRange(0, 5).Draw(t, "pick")
		case "await":
			op.Kind = rapid.SampledFrom([]string{"plain", "errch", "cancelch"}).Draw(t, "kind")
			op.Pre = rapid.IntRange(0, 11).Draw(t, "pre") == 0
		case "cancel":
			op.Pick = rapid.IntRange(0, 5).Draw(t, "pick")
		case "fire":
			op.Pick = rapid.IntRange(0, 5).Draw(t, "pick")
			op.Fire = rapid.SampledFrom([]string{"send", "send", "close", "close", "nil"}).Draw(t, "fire")
		case "setpromise":
			op.New = rapid.SampledFrom([]string{"new", "new", "nil", "same"}).Draw(t, "new")
			op.Pick = rapid.IntRange(0, 5).Draw(t, "pick")
		}
		return op
	})
	c.Ops = rapid.SliceOfN(genOp, 2, ev.Pick(16, 40)).Draw(t, "ops")
	c.Sched = sched.GenSchedule(t, ev.Pick(120, 400))
	return c
}

func errOf(kind string, id int) error {
	switch kind {
	case "custom":
		return fmt.Errorf("result-error-%d", id)
	case "canceled":
		return context.Canceled
	case "deadline":
		return context.DeadlineExceeded
	case "wrapcanceled":
		// an ordinary error value that wraps the sentinel: awaiters get exactly this value back
		return fmt.Errorf("result-%d gave up: %w", id, context.Canceled)
	case "wrapdeadline":
		return fmt.Errorf("result-%d timed out: %w", id, context.DeadlineExceeded)
	}
	return nil
}

// wrapProm is a user-defined PromiseLike (comparable; equal iff it wraps the same promise).
type wrapProm struct{ *promise.Promise[int] }

type prom struct {
	id     int
	p      *promise.Promise[int]
	hasRes bool // a SetResult won (recorded when it returned true)
	val    int
	err    error
	trues  int
	pre    bool // created pre-resolved by container SetResult
}

type awaiter struct {
	id        int
	kind      string
	cancel    context.CancelFunc
	cancelled bool
	errCh     chan error
	cancelCh  chan struct{}
	fired     bool // channel was sent to / closed
	sentErr   error
	sentNil   bool // a nil error was sent on the error channel
	returned  bool
	val       int
	err       error
	startIdx  int // index into the current-promise history at issue time
	endIdx    int
	src       *prom
	label     string
}

func run11(t *testing.T, cs Case) *ev.Verdict {
	const P = "C11"
	v := &ev.Verdict{}
	canon, _ := json.Marshal(struct {
		C   bool
		P   string
		Ops []Op
		W   bool
	}{cs.Container, cs.PreRes, cs.Ops, cs.Wrap})
	v.Canon = string(canon)
	c, berr := sched.Run(t, []string{"broadcast.lock", "broadcast.unlocked", "promise.set", "promise.set.mid"}, cs.Sched, func(c *sched.Ctl) { body11(c, cs, v) })
	v.Trace = c.Trace()
	if c.Prio {
		v.Class("priority-schedule")
	}
	if c.Mix {
		v.Class("uniform-decisions")
	}
	if c.StepLimit && len(v.Viol) == 0 {
		tr := v.Trace
		if len(tr) > 12 {
			tr = tr[len(tr)-12:]
		}
		v.Add(P, "promise:await-spins", "an awaiter keeps taking critical sections without blocking (step limit of %d grants exceeded); last grants: %v", c.MaxSteps, tr)
	}
	if berr != "" && len(v.Viol) == 0 {
		v.Add(P, "promise:leak", "bubble ended with blocked goroutines: %s", berr)
	}
	return v
}

func body11(c *sched.Ctl, cs Case, v *ev.Verdict) {
	const P = "C11"
	c.MaxSteps = 6000
	var hm, vm sync.Mutex
	fail := func(sig, f string, a ...any) {
		vm.Lock()
		v.Add(P, sig, f, a...)
		vm.Unlock()
	}
	var proms []*prom
	nextVal := 0
	type intent struct {
		p   *prom
		err error
	}
	intents := map[int]intent{}
	errIntents := map[error]intent{} // results of error-only constructed promises, by their unique error
	sawCtorResult := false
	var nilCtor *prom // the one promise made with NewPromiseWithErr(nil): resolved with (zero, nil)
	newProm := func() *prom {
		p := &prom{id: len(proms)}
		if cs.PreRes != "" && (len(proms) == 0 || len(proms)%2 == 1) {
			// constructed with its result: that result is the first one, every SetResult must lose
			nextVal++
			kind := cs.PreRes
			if kind == "val" {
				kind = ""
			}
			p.hasRes, p.val, p.err, p.trues = true, nextVal, errOf(kind, nextVal), 1
			if cs.PreRes == "nilerr" && nilCtor == nil {
				// the error-only constructor given a nil error: the result is (zero value, nil)
				nextVal--
				p.val, p.err = 0, nil
				p.p = promise.NewPromiseWithErr[int](nil)
				nilCtor = p
			} else if cs.PreRes == "custom" && p.id%2 == 1 {
				// the error-only constructor: the result is (zero value, err); the error is unique
				p.val = 0
				p.p = promise.NewPromiseWithErr[int](p.err)
				errIntents[p.err] = intent{p, p.err}
			} else {
				p.p = promise.NewPromiseWithResult(p.val, p.err)
				intents[p.val] = intent{p, p.err}
			}
			sawCtorResult = true
		} else {
			p.p = promise.NewPromise[int]()
		}
		proms = append(proms, p)
		return p
	}
	var ctr *promise.PromiseContainer[int]
	// history of the container's current promise (index into proms, -1 = nil), advanced in grant order
	hist := []int{-1}
	containerOps := map[string]func(){} // label -> model transition applied at the op's critical-section grant
	var single *prom
	if cs.Container {
		ctr = promise.NewPromiseContainer[int]()
	} else {
		single = newProm()
	}
	var awaiters []*awaiter
	concurrentSetters, replacedDuringAwait, sentinelResult := false, false, false
	settersInFlight := 0

	c.OnGrant(func(tk *sched.Ticket) {
		if tk.Point == "broadcast.lock" {
			if f, ok := containerOps[tk.Label]; ok {
				hm.Lock()
				f()
				hm.Unlock()
				delete(containerOps, tk.Label)
			}
		}
	})

	curProm := func() *prom { // hm held
		i := hist[len(hist)-1]
		if i < 0 {
			return nil
		}
		return proms[i]
	}

	quiescent := func(where string) {
		hm.Lock()
		defer hm.Unlock()
		for _, p := range proms {
			if p.trues > 1 {
				fail("promise:two-winners", "%s: %d SetResult calls on promise %d returned true", where, p.trues, p.id)
				return
			}
		}
		for _, a := range awaiters {
			if a.returned && a.src != nil && a.src.hasRes && a.src.val != a.val {
				fail("promise:non-winning-result", "%s: await #%d returned %d but the SetResult that returned true on promise %d carried %d", where, a.id, a.val, a.src.id, a.src.val)
				return
			}
		}
		for _, a := range awaiters {
			if a.returned {
				continue
			}
			// a blocked awaiter at full quiescence has processed every replacement so far
			a.startIdx = len(hist) - 1
			var resolved *prom
			if cs.Container {
				if p := curProm(); p != nil && p.hasRes {
					resolved = p
				}
			} else if single.hasRes {
				resolved = single
			}
			switch {
			case a.cancelled:
				fail("promise:cancelled-not-returned", "%s: %s await #%d whose context is cancelled is still blocked at full quiescence", where, a.kind, a.id)
			case resolved != nil:
				fail("promise:blocked-despite-result", "%s: %s await #%d is blocked at full quiescence although the (current) promise %d is resolved with (%d,%v)", where, a.kind, a.id, resolved.id, resolved.val, resolved.err)
			case a.fired:
				sig := "promise:channel-ignored"
				if cs.Container {
					sig = "promisecontainer:channel-ignored-" + a.kind
				}
				fail(sig, "%s: %s await #%d is blocked at full quiescence although its error/cancel channel fired (container=%v, current promise unresolved=%v)", where, a.kind, a.id, cs.Container, cs.Container && curProm() != nil)
			default:
				continue
			}
			return
		}
	}

	// partial: other operations are parked at schedule points, every goroutine without a ticket
	// is durably blocked. An awaiter among those has nothing left to do but wait, so the promise
	// it has to look at (the container's current one) cannot hold a result.
	partial := func(where string) {
		hm.Lock()
		defer hm.Unlock()
		pend := map[string]bool{}
		for _, tk := range c.Pending() {
			pend[tk.Label] = true
		}
		var resolved *prom
		if cs.Container {
			if p := curProm(); p != nil && p.hasRes {
				resolved = p
			}
		} else if single.hasRes {
			resolved = single
		}
		if resolved == nil {
			return
		}
		for _, a := range awaiters {
			if a.returned || pend[a.label] {
				continue
			}
			fail("promise:blocked-despite-result", "%s: %s await #%d is blocked (it is not waiting at a schedule point; other operations are) although the (current) promise %d is resolved with (%d,%v)", where, a.kind, a.id, resolved.id, resolved.val, resolved.err)
			return
		}
	}

	for i, op := range cs.Ops {
		if len(v.Viol) > 0 || c.StepLimit {
			break
		}
		v.OpsTotal++
		eff := true
		label := fmt.Sprintf("o%02d", i)
		switch op.K {
		case "set":
			hm.Lock()
			var target *prom
			if cs.Container {
				if len(proms) == 0 {
					eff = false
					hm.Unlock()
					break
				}
				target = proms[op.Pick%len(proms)]
				if target.pre {
					// a pre-resolved promise made by container.SetResult is not reachable by users
					eff = false
					hm.Unlock()
					break
				}
			} else {
				target = single
			}
			nextVal++
			val, e := nextVal, errOf(op.Err, nextVal)
			if op.Err == "canceled" || op.Err == "deadline" {
				sentinelResult = true
			}
			if settersInFlight > 0 {
				concurrentSetters = true
			}
			settersInFlight++
			intents[val] = intent{target, e}
			hm.Unlock()
			c.Go(label, func() {
				ok := target.p.SetResult(val, e)
				hm.Lock()
				defer hm.Unlock()
				settersInFlight--
				if ok {
					target.trues++
					if !target.hasRes {
						target.hasRes, target.val, target.err = true, val, e
					}
				}
			})
		case "setresult":
			if !cs.Container {
				eff = false
				break
			}
			hm.Lock()
			nextVal++
			val, e := nextVal, errOf(op.Err, nextVal)
			if op.Err == "canceled" || op.Err == "deadline" {
				sentinelResult = true
			}
			containerOps[label] = func() {
				p := &prom{id: len(proms), hasRes: true, val: val, err: e, trues: 1, pre: true}
				proms = append(proms, p)
				intents[val] = intent{p, e}
				hist = append(hist, p.id)
				for _, a := range awaiters {
					if !a.returned {
						replacedDuringAwait = true
					}
				}
			}
			hm.Unlock()
			c.Go(label, func() {
				if !ctr.SetResult(val, e) {
					fail("promisecontainer:setresult-false", "PromiseContainer.SetResult returned false")
				}
			})
		case "setpromise":
			if !cs.Container {
				eff = false
				break
			}
			hm.Lock()
			var np *prom
			switch op.New {
			case "new":
				np = newProm()
			case "same":
				var el []*prom
				for _, p := range proms {
					if !p.pre {
						el = append(el, p)
					}
				}
				if len(el) > 0 {
					np = el[op.Pick%len(el)]
				}
			}
			idx := -1
			if np != nil {
				idx = np.id
			}
			containerOps[label] = func() {
				if hist[len(hist)-1] != idx {
					hist = append(hist, idx)
					for _, a := range awaiters {
						if !a.returned {
							replacedDuringAwait = true
						}
					}
				}
			}
			hm.Unlock()
			c.Go(label, func() {
				if np == nil {
					ctr.SetPromise(nil)
				} else {
					if cs.Wrap {
						ctr.SetPromise(wrapProm{np.p})
					} else {
						ctr.SetPromise(np.p)
					}
				}
			})
		case "await":
			hm.Lock()
			a := &awaiter{id: len(awaiters), kind: op.Kind, startIdx: len(hist) - 1, label: label}
			awaiters = append(awaiters, a)
			hm.Unlock()
			ctx, cancel := context.WithCancel(context.Background())
			a.cancel = cancel
			if a.id%3 == 0 {
				// a context that ends like an expired deadline: awaits must still answer context.Canceled
				ctx = deadlineLike{ctx}
			}
			if op.Pre {
				cancel()
				a.cancelled = true
			}
			switch op.Kind {
			case "errch":
				a.errCh = make(chan error, 1)
			case "cancelch":
				a.cancelCh = make(chan struct{}, 1)
			}
			var pl promise.PromiseLike[int]
			if cs.Container {
				pl = ctr
			} else {
				pl = single.p
			}
			c.Go(label, func() {
				var val int
				var err error
				switch a.kind {
				case "errch":
					val, err = pl.AwaitWithErrCh(ctx, a.errCh)
				case "cancelch":
					val, err = pl.AwaitWithCancelCh(ctx, a.cancelCh)
				default:
					val, err = pl.Await(ctx)
				}
				hm.Lock()
				defer hm.Unlock()
				a.returned, a.val, a.err = true, val, err
				a.endIdx = len(hist) - 1
				if val != 0 {
					// by result: find the SetResult call that carried this unique value
					in, known := intents[val]
					if !known {
						fail("promise:unknown-result", "%s await #%d returned (%d,%v) which no SetResult call carried", a.kind, a.id, val, err)
						return
					}
					src := in.p
					if err != in.err {
						fail("promise:result-error-mismatch", "%s await #%d returned (%d,%v); SetResult was called with (%d,%v)", a.kind, a.id, val, err, val, in.err)
						return
					}
					if !cs.Container && src != single {
						fail("promise:foreign-result", "await #%d returned a value set on another promise", a.id)
						return
					}
					a.src = src
					if cs.Container {
						ok := false
						for k := a.startIdx; k <= a.endIdx; k++ {
							if hist[k] == src.id {
								ok = true
							}
						}
						if !ok {
							fail("promisecontainer:stale-result", "await #%d returned the result of promise %d which was not the container's current promise at any instant of the call (history %v, call spans [%d,%d])", a.id, src.id, hist, a.startIdx, a.endIdx)
						}
					}
					return
				}
				if in, known := errIntents[err]; known {
					// the (zero, unique error) result of a promise made with NewPromiseWithErr
					a.src = in.p
					if !cs.Container && in.p != single {
						fail("promise:foreign-result", "await #%d returned an error set on another promise", a.id)
					}
					if cs.Container {
						ok := false
						for k := a.startIdx; k <= a.endIdx; k++ {
							if hist[k] == in.p.id {
								ok = true
							}
						}
						if !ok {
							fail("promisecontainer:stale-result", "await #%d returned the result of promise %d which was not the container's current promise at any instant of the call (history %v, call spans [%d,%d])", a.id, in.p.id, hist, a.startIdx, a.endIdx)
						}
					}
					return
				}
				if err == nil && nilCtor != nil {
					// (zero, nil) may be the result of the promise made with NewPromiseWithErr(nil)
					ok := !cs.Container && nilCtor == single
					if cs.Container {
						for k := a.startIdx; k <= a.endIdx; k++ {
							if hist[k] == nilCtor.id {
								ok = true
							}
						}
					}
					if ok {
						a.src = nilCtor
						return
					}
				}
				// no value: must be a cancellation / channel event
				switch {
				case err == context.Canceled && (a.cancelled || a.fired):
				case err == nil && a.kind == "cancelch" && a.fired && cs.Container:
					// documented: the container returns (zero, nil) when cancelCh fires
				case a.sentErr != nil && err == a.sentErr:
				case a.sentNil && err == nil:
					// the channel fired with a nil error: the await is over, without a result
				default:
					fail("promise:spurious-return", "%s await #%d returned (0,%v) although no result was delivered to it, its context is live (cancelled=%v) and its channel did not fire (fired=%v)", a.kind, a.id, err, a.cancelled, a.fired)
				}
			})
		case "cancel", "fire":
			hm.Lock()
			var el []*awaiter
			for _, a := range awaiters {
				if a.returned || a.cancelled || a.fired {
					continue
				}
				if op.K == "fire" && a.errCh == nil && a.cancelCh == nil {
					continue
				}
				if op.K == "fire" && cs.Container && ev.KnownOpen("promisecontainer:channel-ignored-"+a.kind) {
					// open finding D16: excluded by construction while it is listed as open
					if p := curProm(); p != nil && !p.hasRes {
						v.Class("excluded-known-D16")
						continue
					}
				}
				el = append(el, a)
			}
			if len(el) == 0 {
				eff = false
				hm.Unlock()
				break
			}
			a := el[op.Pick%len(el)]
			if op.K == "cancel" {
				a.cancelled = true
				hm.Unlock()
				a.cancel()
				break
			}
			a.fired = true
			if a.errCh != nil {
				if op.Fire == "close" {
					hm.Unlock()
					close(a.errCh)
				} else if op.Fire == "nil" {
					a.sentNil = true
					hm.Unlock()
					a.errCh <- nil
				} else {
					a.sentErr = fmt.Errorf("errch-error-%d", a.id)
					hm.Unlock()
					a.errCh <- a.sentErr
				}
			} else {
				hm.Unlock()
				if op.Fire == "close" {
					close(a.cancelCh)
				} else {
					a.cancelCh <- struct{}{}
				}
			}
		}
		if eff {
			v.OpsEffective++
		}
		full := c.Settle(false)
		if pp := c.Panics(); pp != "" {
			fail("promise:panic", "operation panicked: %s", pp)
			break
		}
		if full {
			quiescent(fmt.Sprintf("after op %d", i))
		} else {
			partial(fmt.Sprintf("after op %d", i))
		}
	}
	if len(v.Viol) == 0 && !c.StepLimit && c.Settle(true) {
		quiescent("end")
	}
	if p := c.Panics(); p != "" {
		fail("promise:panic", "operation panicked: %s", p)
	}
	hadViol := len(v.Viol) > 0 || c.StepLimit
	if c.StepLimit {
		// a spinning awaiter would spin forever in pass-through mode: cancel first so that it can leave
		hm.Lock()
		for _, a := range awaiters {
			if !a.returned && !a.cancelled {
				a.cancelled = true
				a.cancel()
			}
		}
		hm.Unlock()
	}
	c.PassThrough()
	hm.Lock()
	for _, a := range awaiters {
		if !a.returned && !a.cancelled {
			a.cancelled = true
			a.cancel()
		}
	}
	hm.Unlock()
	c.Wait()
	if !hadViol {
		if bl := c.Blocked(); len(bl) > 0 {
			fail("promise:stuck-after-cancel", "ops %v never returned although every context was cancelled", bl)
		}
	}
	if concurrentSetters || replacedDuringAwait || sentinelResult {
		v.SetNT(P)
	}
	if concurrentSetters {
		v.Class("concurrent-setters")
	}
	if replacedDuringAwait {
		v.Class("replacement-during-await")
	}
	if sentinelResult {
		v.Class("context-sentinel-as-result")
	}
	if sawCtorResult {
		v.Class("promise-constructed-with-its-result")
	}
}

func TestC11(t *testing.T) {
	ev.Drive(t, ev.Runner[Case]{
		Prop: "C11",
		Rule: "Promise machine {SetResult(unique value, nil|custom|context.Canceled|DeadlineExceeded), Await/AwaitWithErrCh/AwaitWithCancelCh with own context, cancel, send/close on the channels} and PromiseContainer machine {+SetPromise(new|nil|same), SetResult}; setters may be parked between the done-flag swap and the field writes; non-trivial iff >= 2 setters overlapped, or the container's promise was replaced during an await, or a result carried a context sentinel error; distinct by hash(ops, realised grant trace)",
		Gen:  genCase,
		Run:  run11,
	})
}
