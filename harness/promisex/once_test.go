package promisex

import (
	"context"
	"encoding/json"
	"fmt"
	"sync"
	"testing"

	"github.com/aperturerobotics/util/memo"
	"github.com/aperturerobotics/util/promise"
	"pgregory.net/rapid"
	"verif/harness/ev"
	"verif/harness/sched"
)

// OnceOp is one operation of the Once / MemoizeFunc machine.
type OnceOp struct {
	K    string `json:"k"`             // resolve finish cancel
	Out  string `json:"out,omitempty"` // finish: value | err | ctxerr
	Pre  bool   `json:"pre,omitempty"`
	Pick int    `json:"pick,omitempty"`
}

// OnceCase is a generated history plus schedule.
type OnceCase struct {
	Memo  bool     `json:"memo"`
	Ops   []OnceOp `json:"ops"`
	Sched []byte   `json:"sched"`
}

func genOnce(t *rapid.T) OnceCase {
	c := OnceCase{Memo: rapid.IntRange(0, 3).Draw(t, "memo") == 0}
	genOp := rapid.Custom(func(t *rapid.T) OnceOp {
		op := OnceOp{K: rapid.SampledFrom([]string{"resolve", "resolve", "resolve", "finish", "finish", "cancel"}).Draw(t, "k")}
		switch op.K {
		case "resolve":
			op.Pre = rapid.IntRange(0, 7).Draw(t, "pre") == 0
		case "finish":
			op.Out = rapid.SampledFrom([]string{"value", "value0", "err", "err", "ctxerr", "wrapctxerr", "valerr", "panic"}).Draw(t, "out")
			op.Pick = rapid.IntRange(0, 3).Draw(t, "pick")
		case "cancel":
			op.Pick = rapid.IntRange(0, 5).Draw(t, "pick")
		}
		return op
	})
	c.Ops = rapid.SliceOfN(genOp, 2, ev.Pick(16, 40)).Draw(t, "ops")
	c.Sched = sched.GenSchedule(t, ev.Pick(120, 400))
	return c
}

type invocation struct {
	id       int
	ctx      context.Context
	release  chan string
	finished bool // Finish op issued
	returned bool
	val      int
	err      error
	// cancelDerived: the error was produced because the invocation's (initiator's) context was cancelled
	cancelDerived bool
	panicked      bool // memo: the function panicked (its caller recovers)
}

type caller struct {
	forbidden map[error]bool // errors already delivered to some caller before this one was issued
	id        int
	cancel    context.CancelFunc
	cancelled bool
	pre       bool // its context was cancelled before Resolve was called
	returned  bool
	val       int
	err       error
}

func run16(t *testing.T, cs OnceCase) *ev.Verdict {
	const P = "C16"
	v := &ev.Verdict{}
	canon, _ := json.Marshal(struct {
		M   bool
		Ops []OnceOp
	}{cs.Memo, cs.Ops})
	v.Canon = string(canon)
	c, berr := sched.Run(t, []string{"once.lock", "memo.enter", "promise.set", "promise.set.mid"}, cs.Sched, func(c *sched.Ctl) { body16(c, cs, v) })
	v.Trace = c.Trace()
	if c.Prio {
		v.Class("priority-schedule")
	}
	if c.Mix {
		v.Class("uniform-decisions")
	}
	if c.StepLimit && len(v.Viol) == 0 {
		v.Add(P, "once:spins", "a caller keeps looping without blocking (step limit exceeded)")
	}
	if berr != "" && len(v.Viol) == 0 {
		v.Add(P, "once:leak", "bubble ended with blocked goroutines: %s", berr)
	}
	return v
}

func body16(c *sched.Ctl, cs OnceCase, v *ev.Verdict) {
	const P = "C16"
	c.MaxSteps = 6000
	var hm, vm sync.Mutex
	fail := func(sig, f string, a ...any) {
		vm.Lock()
		v.Add(P, sig, f, a...)
		vm.Unlock()
	}
	var invs []*invocation
	var callers []*caller
	active := 0
	succeeded := false
	successVal := 0
	var returnedErrs []error
	enter := func(ctx context.Context) *invocation {
		hm.Lock()
		inv := &invocation{id: len(invs), ctx: ctx, release: make(chan string, 1)}
		invs = append(invs, inv)
		active++
		if active > 1 {
			fail("once:concurrent-invocations", "function entered while another invocation is still running (%d active, invocation #%d)", active, inv.id)
		}
		if succeeded {
			fail("once:called-after-success", "function invoked again (invocation #%d) after an earlier invocation had returned without error", inv.id)
		}
		if cs.Memo && len(invs) > 1 {
			fail("memo:called-twice", "memoized function invoked %d times", len(invs))
		}
		hm.Unlock()
		return inv
	}
	leave := func(inv *invocation, out string) (int, error) {
		hm.Lock()
		defer hm.Unlock()
		active--
		inv.returned = true
		switch out {
		case "value":
			inv.val = 100 + inv.id
			succeeded, successVal = true, inv.val
		case "value0":
			// success with the zero value of T
			inv.val = 0
			succeeded, successVal = true, 0
		case "valerr":
			// a failure that also carries a (non-zero) value
			inv.val = 100 + inv.id
			inv.err = fmt.Errorf("fn-error-%d", inv.id)
		case "ctxerr":
			if inv.ctx != nil && inv.ctx.Err() != nil {
				inv.err = inv.ctx.Err()
				break
			}
			fallthrough
		case "wrapctxerr":
			if out == "wrapctxerr" && inv.ctx != nil && inv.ctx.Err() != nil {
				// a function that reports its cancellation with a wrapped error
				inv.err = fmt.Errorf("fn-%d aborted: %w", inv.id, inv.ctx.Err())
				inv.cancelDerived = true
				break
			}
			fallthrough
		default:
			inv.err = fmt.Errorf("fn-error-%d", inv.id)
		}
		if inv.err != nil {
			returnedErrs = append(returnedErrs, inv.err)
		}
		return inv.val, inv.err
	}
	once := promise.NewOnce(func(ctx context.Context) (int, error) {
		inv := enter(ctx)
		out := <-inv.release
		return leave(inv, out)
	})
	memoFn := memo.MemoizeFunc(func() (int, error) {
		inv := enter(nil)
		out := <-inv.release
		if out == "panic" {
			// the one call ends abnormally; what the others receive is not specified, but the call is
			// over: nobody may keep waiting for it and the function is not called again
			hm.Lock()
			inv.panicked = true
			hm.Unlock()
			leave(inv, out)
			panic("memoized function panics")
		}
		return leave(inv, out)
	})
	failureSeen, cancelWhileInFlight, laterCaller := false, false, false

	quiescent := func(where string) {
		hm.Lock()
		defer hm.Unlock()
		for _, cl := range callers {
			if cl.returned {
				continue
			}
			switch {
			case cl.cancelled && !cs.Memo:
				fail("once:cancelled-not-returned", "%s: Resolve #%d whose context is cancelled is still blocked at full quiescence", where, cl.id)
			case succeeded:
				fail("once:blocked-after-success", "%s: caller #%d is blocked at full quiescence although the function has returned a value", where, cl.id)
			case active == 0:
				fail("once:blocked-without-invocation", "%s: caller #%d is blocked at full quiescence although no invocation is in flight (%d invocations so far, all returned)", where, cl.id, len(invs))
			default:
				continue
			}
			return
		}
	}

	for i, op := range cs.Ops {
		if len(v.Viol) > 0 || c.StepLimit {
			break
		}
		v.OpsTotal++
		eff := true
		label := fmt.Sprintf("o%02d", i)
		switch op.K {
		case "resolve":
			hm.Lock()
			cl := &caller{id: len(callers), forbidden: map[error]bool{}}
			for _, o := range callers {
				if o.returned && o.err != nil && o.err != context.Canceled {
					cl.forbidden[o.err] = true
				}
			}
			callers = append(callers, cl)
			if len(invs) > 0 && active == 0 {
				laterCaller = true
			}
			hm.Unlock()
			ctx, cancel := context.WithCancel(context.Background())
			if cl.id%3 == 0 {
				// a context that ends like an expired deadline: Err() is DeadlineExceeded
				ctx = deadlineLike{ctx}
			}
			cl.cancel = cancel
			if op.Pre && !cs.Memo {
				cancel()
				cl.cancelled, cl.pre = true, true
			}
			c.Go(label, func() {
				var val int
				var err error
				if cs.Memo {
					func() {
						defer func() { _ = recover() }()
						val, err = memoFn()
					}()
				} else {
					val, err = once.Resolve(ctx)
				}
				hm.Lock()
				defer hm.Unlock()
				cl.returned, cl.val, cl.err = true, val, err
				if cs.Memo && len(invs) > 0 && invs[0].panicked {
					return // (results after an abnormal end are not specified)
				}
				if cl.pre && err != context.Canceled {
					fail("once:cancelled-caller-got-result", "caller #%d called Resolve with an already cancelled context and got (%d,%v) instead of context.Canceled", cl.id, val, err)
				}
				switch {
				case err == nil:
					if !succeeded || val != successVal {
						fail("once:wrong-value", "caller #%d returned (%d,nil); function success so far: %v value %d", cl.id, val, succeeded, successVal)
					}
				case err == context.Canceled:
					if !cl.cancelled {
						fail("once:spurious-cancel", "caller #%d returned context.Canceled although its own context is live", cl.id)
					}
				default:
					ok := false
					for _, e := range returnedErrs {
						if e == err {
							ok = true
						}
					}
					if !ok {
						fail("once:unknown-error", "caller #%d returned error %v which no invocation returned", cl.id, err)
					}
					if !cs.Memo && !cl.cancelled {
						for _, inv := range invs {
							if inv.cancelDerived && inv.err == err {
								fail("once:cancellation-leaked", "caller #%d (own context live) returned %v, the error of an invocation that was aborted only because its initiating caller's context was cancelled; it should have obtained a result from a new invocation", cl.id, err)
							}
						}
					}
					if !cs.Memo && cl.forbidden[err] {
						fail("once:stale-error", "caller #%d was issued after another caller had already received %v, yet it returned that same error instead of calling the function again", cl.id, err)
					}
					if cs.Memo && (len(invs) == 0 || invs[0].err != err || invs[0].val != val) {
						fail("memo:wrong-result", "caller #%d returned (%d, %v), the single invocation returned (%d, %v)", cl.id, val, err, invs[0].val, invs[0].err)
					}
				}
			})
		case "finish":
			hm.Lock()
			var el []*invocation
			for _, inv := range invs {
				if !inv.finished {
					el = append(el, inv)
				}
			}
			if len(el) == 0 {
				eff = false
				hm.Unlock()
				break
			}
			inv := el[op.Pick%len(el)]
			inv.finished = true
			if op.Out != "value" && op.Out != "value0" {
				failureSeen = true
			}
			hm.Unlock()
			inv.release <- op.Out
		case "cancel":
			if cs.Memo {
				eff = false
				break
			}
			hm.Lock()
			var el []*caller
			for _, cl := range callers {
				if !cl.returned && !cl.cancelled {
					el = append(el, cl)
				}
			}
			if len(el) == 0 {
				eff = false
				hm.Unlock()
				break
			}
			cl := el[op.Pick%len(el)]
			cl.cancelled = true
			if active > 0 {
				cancelWhileInFlight = true
			}
			hm.Unlock()
			cl.cancel()
		}
		if eff {
			v.OpsEffective++
		}
		full := c.Settle(false)
		if pp := c.Panics(); pp != "" {
			fail("once:panic", "operation panicked: %s", pp)
			break
		}
		if full {
			quiescent(fmt.Sprintf("after op %d", i))
		}
	}
	if len(v.Viol) == 0 && !c.StepLimit && c.Settle(true) {
		quiescent("end")
	}
	if p := c.Panics(); p != "" {
		fail("once:panic", "operation panicked: %s", p)
	}
	hadViol := len(v.Viol) > 0 || c.StepLimit
	cancelAll := func() {
		hm.Lock()
		for _, cl := range callers {
			if !cl.returned && !cl.cancelled {
				cl.cancelled = true
				cl.cancel()
			}
		}
		hm.Unlock()
	}
	if c.StepLimit {
		cancelAll()
	}
	c.PassThrough()
	// finish every invocation (new ones may start while callers drain), then cancel the callers
	for round := 0; round < 50; round++ {
		c.Wait()
		hm.Lock()
		var todo []*invocation
		for _, inv := range invs {
			if !inv.finished {
				inv.finished = true
				todo = append(todo, inv)
			}
		}
		hm.Unlock()
		if len(todo) == 0 {
			break
		}
		cancelAll()
		for _, inv := range todo {
			inv.release <- "err"
		}
	}
	cancelAll()
	c.Wait()
	if !hadViol {
		if bl := c.Blocked(); len(bl) > 0 {
			fail("once:stuck-after-cleanup", "callers %v never returned although every invocation finished and every context was cancelled", bl)
		}
	}
	nCallers := len(callers)
	if nCallers >= 2 && (failureSeen || cancelWhileInFlight || laterCaller) {
		v.SetNT(P)
	}
	if failureSeen {
		v.Class("function-failed")
	}
	if cancelWhileInFlight {
		v.Class("caller-cancelled-while-invocation-in-flight")
	}
	if laterCaller {
		v.Class("caller-after-completion")
	}
	if cs.Memo {
		v.Class("memo")
	}
}

func TestC16(t *testing.T) {
	ev.Drive(t, ev.Runner[OnceCase]{
		Prop: "C16",
		Rule: "promise.Once (3/4) or memo.MemoizeFunc (1/4); ops Resolve(own context) / Finish(pick running invocation, value|zero value|error|value with error|initiator's ctx error; MemoizeFunc: panic, recovered by its caller) / Cancel(pick caller); the wrapped function blocks until Finish; callers are parked before the Once mutex so that arrival order relative to completion is generated; non-trivial iff >= 2 callers and (a failure, a caller cancelled while an invocation was in flight, or a caller arriving after completion); distinct by hash(ops, realised grant trace)",
		Gen:  genOnce,
		Run:  run16,
	})
}

// deadlineLike is a context whose Err() reports context.DeadlineExceeded once its
// Done channel is closed; a caller using it must still be told context.Canceled.
type deadlineLike struct{ context.Context }

func (d deadlineLike) Err() error {
	if d.Context.Err() != nil {
		return context.DeadlineExceeded
	}
	return nil
}
