package promisex

import (
	"context"
	"errors"
	"fmt"
	"testing"

	"github.com/aperturerobotics/util/memo"
	"github.com/aperturerobotics/util/promise"
	"pgregory.net/rapid"
	"verif/harness/ev"
	"verif/harness/sched"
)

// OnceSeqCase: the wrapped function returns at once with scripted outcomes; Resolve is called
// from one goroutine, one call after the other.
type OnceSeqCase struct {
	Memo   bool     `json:"memo"`
	Script []string `json:"script"` // value value0 err wrapcancel wrapdeadline deadline cancel
	Calls  int      `json:"calls"`
}

func genOnceSeq(t *rapid.T) OnceSeqCase {
	c := OnceSeqCase{Memo: rapid.IntRange(0, 4).Draw(t, "memo") == 0}
	c.Script = rapid.SliceOfN(rapid.SampledFrom([]string{"value", "value0", "err", "err", "wrapcancel", "wrapcancel", "wrapdeadline", "deadline", "cancel"}), 1, 8).Draw(t, "script")
	// exactly context.Canceled with a live caller makes Resolve try again: the script must go on
	c.Script = append(c.Script, "value")
	c.Calls = rapid.IntRange(1, 8).Draw(t, "calls")
	return c
}

func scriptedOutcome(kind string, n int) (int, error) {
	switch kind {
	case "value":
		return 100 + n, nil
	case "value0":
		return 0, nil
	case "wrapcancel":
		// an ordinary failure whose error happens to wrap the sentinel
		return 0, fmt.Errorf("step %d gave up: %w", n, context.Canceled)
	case "wrapdeadline":
		return 0, fmt.Errorf("step %d timed out: %w", n, context.DeadlineExceeded)
	case "deadline":
		return 0, context.DeadlineExceeded
	case "cancel":
		return 0, context.Canceled
	}
	return 0, fmt.Errorf("fn-error-%d", n)
}

// runOnceSeq: without concurrency the contract reads off directly. Every Resolve with a live
// context runs the function once (again after exactly context.Canceled, which says "the
// initiator went away"), returns that invocation's own outcome, and after a success the
// function is never called again and every Resolve returns that value. MemoizeFunc calls its
// function once and returns that outcome forever.
func runOnceSeq(_ *testing.T, cs OnceSeqCase) *ev.Verdict {
	const P = "C16"
	v := &ev.Verdict{}
	calls := 0
	var lastVal int
	var lastErr error
	fn := func() (int, error) {
		k := cs.Script[len(cs.Script)-1]
		if calls < len(cs.Script) {
			k = cs.Script[calls]
		}
		calls++
		lastVal, lastErr = scriptedOutcome(k, calls)
		return lastVal, lastErr
	}
	if cs.Memo {
		m := memo.MemoizeFunc(fn)
		var firstVal int
		var firstErr error
		for i := 0; i < cs.Calls; i++ {
			val, err := m()
			if i == 0 {
				firstVal, firstErr = lastVal, lastErr
			}
			if calls != 1 {
				v.Add(P, "memo:called-twice", "memoized function invoked %d times after %d calls", calls, i+1)
				return v
			}
			if val != firstVal || err != firstErr {
				v.Add(P, "memo:wrong-result", "call %d returned (%d, %v), the single invocation returned (%d, %v)", i, val, err, firstVal, firstErr)
				return v
			}
		}
		v.SetNT(P)
		v.Class("memo-sequential")
		return v
	}
	once := promise.NewOnce(func(context.Context) (int, error) { return fn() })
	model := 0 // invocations the model expects so far
	succeeded, successVal := false, 0
	wrapped := false
	for i := 0; i < cs.Calls; i++ {
		val, err := once.Resolve(context.Background())
		if succeeded {
			if calls != model {
				v.Add(P, "once:called-after-success", "Resolve #%d invoked the function again (%d invocations, %d before) after it had returned a value", i, calls, model)
				return v
			}
			if err != nil || val != successVal {
				v.Add(P, "once:wrong-value", "Resolve #%d returned (%d, %v) after the function had succeeded with %d", i, val, err, successVal)
				return v
			}
			continue
		}
		// the model runs the script: exactly context.Canceled from the function is taken as
		// "the caller that started it went away" and the call is repeated
		var wantVal int
		var wantErr error
		for {
			k := cs.Script[len(cs.Script)-1]
			if model < len(cs.Script) {
				k = cs.Script[model]
			}
			model++
			wantVal, wantErr = scriptedOutcome(k, model)
			if k == "wrapcancel" || k == "wrapdeadline" {
				wrapped = true
			}
			if wantErr != context.Canceled {
				break
			}
		}
		if calls != model {
			v.Add(P, "once:invocation-count", "after Resolve #%d the function has been invoked %d times, the outcomes so far imply %d (script %v)", i, calls, model, cs.Script)
			return v
		}
		if val != wantVal || (err == nil) != (wantErr == nil) || (err != nil && err.Error() != wantErr.Error()) || errors.Is(err, context.Canceled) != errors.Is(wantErr, context.Canceled) {
			v.Add(P, "once:wrong-result", "Resolve #%d returned (%d, %v), the invocation it ran returned (%d, %v)", i, val, err, wantVal, wantErr)
			return v
		}
		if wantErr == nil {
			succeeded, successVal = true, wantVal
		}
	}
	if cs.Calls >= 2 {
		v.SetNT(P)
	}
	if wrapped {
		v.Class("function-error-wraps-a-context-sentinel")
	}
	return v
}

func TestC16Seq(t *testing.T) {
	ev.Drive(t, ev.Runner[OnceSeqCase]{
		Prop: "C16", ReplayRuns: 1,
		Rule: "promise.Once (4/5) or memo.MemoizeFunc (1/5) used from one goroutine: 1..8 Resolve calls with a live context on a function that returns at once with scripted outcomes (value, zero value, error, errors wrapping context.Canceled / DeadlineExceeded, the sentinels themselves); oracle: every Resolve runs the function once more (again after exactly context.Canceled) and returns that invocation's own outcome, after a success no further invocation and always that value, MemoizeFunc one invocation and always its outcome; non-trivial iff >= 2 calls; distinct by input",
		Gen:  genOnceSeq,
		Run: func(t *testing.T, cs OnceSeqCase) *ev.Verdict {
			var v *ev.Verdict
			sched.Guard(func() { v = runOnceSeq(t, cs) })
			return v
		},
	})
}
