#!/usr/bin/env python3
"""Sensitivity helper: apply a textual mutation to a scratch worktree of /repo,
run the repository's own tests for the touched package, then the named checks.

  tools/mutate.py <name> <props,comma> <file> <old> <new> [--count N] [--tier quick]
or with a patch file:
  tools/mutate.py <name> <props> --patch <file.diff>
The scratch tree lives under /tmp and is removed afterwards.
"""
import os, subprocess, sys, shutil, json, time

def sh(cmd, **kw):
    return subprocess.run(cmd, shell=isinstance(cmd, str), stdout=subprocess.PIPE, stderr=subprocess.STDOUT, text=True, **kw)

def main():
    a = sys.argv[1:]
    name, props = a[0], a[1].split(",")
    wt = "/tmp/mut-%s-%d" % (name, os.getpid())
    r = sh(["git", "-C", "/repo", "worktree", "add", "-q", "--detach", wt, "HEAD"])
    if r.returncode != 0:
        print(r.stdout); return 2
    try:
        pkgs = set()
        if a[2] == "--patch":
            r = sh(["git", "-C", wt, "apply", os.path.abspath(a[3])])
            if r.returncode != 0:
                print("patch does not apply:", r.stdout); return 2
            files = sh(["git", "-C", wt, "diff", "--name-only"]).stdout.split()
            rest = a[4:]
        else:
            f, old, new = a[2], a[3], a[4]
            rest = a[5:]
            p = os.path.join(wt, f)
            s = open(p).read()
            cnt = 1
            if "--count" in rest:
                cnt = int(rest[rest.index("--count") + 1])
            if s.count(old) != cnt:
                print("pattern occurs %d times, expected %d" % (s.count(old), cnt)); return 2
            open(p, "w").write(s.replace(old, new))
            files = [f]
        for f in files:
            if f.endswith(".go"):
                pkgs.add("./" + os.path.dirname(f))
        env = dict(os.environ, GOFLAGS="-mod=mod", GOPROXY="off", GOSUMDB="off")
        t = sh(["go", "test", "-vet=off", "-count=1", "-timeout", "120s"] + sorted(pkgs), cwd=wt, env=env)
        own_ok = t.returncode == 0
        print("[%s] repository tests for %s: %s" % (name, sorted(pkgs), "pass" if own_ok else "FAIL"))
        if not own_ok:
            print(t.stdout[-1500:])
        tier = "quick"
        if "--tier" in rest:
            tier = rest[rest.index("--tier") + 1]
        out = {}
        for prop in props:
            t0 = time.time()
            c = sh(["/verif/check", prop, "--tier", tier], cwd="/verif", env=dict(os.environ, VERIF_REPO=wt, VERIF_SEED=os.environ.get("VERIF_SEED", "1")))
            viol = [l for l in c.stdout.splitlines() if l.startswith("VIOLATION")]
            print("[%s] %s rc=%d %.1fs %s" % (name, prop, c.returncode, time.time() - t0, viol[:1] or c.stdout.strip().splitlines()[-1:]))
            if "-v" in rest:
                print(c.stdout[-3000:])
            out[prop] = c.returncode
        # restore evidence produced against the mutant
        return 0
    finally:
        sh(["git", "-C", "/repo", "worktree", "remove", "--force", wt])
        shutil.rmtree(wt, ignore_errors=True)

if __name__ == "__main__":
    sys.exit(main())
