#!/usr/bin/env python3
"""Re-run the own-property quick check against every kept seeded change.

  tools/reverify.py [--jobs N] [--only C07,C12] [--min 31] [--out /tmp/reverify.json]

For each /verif/seeded/<name>/ a scratch worktree of /repo HEAD is created under /tmp,
the patch applied, the quick check of the seed's property (C07-seed6: C06, the one it
was kept for) run with VERIF_SEED=1 and, if that stays silent, VERIF_SEED=2 and 3;
the worktree is removed afterwards. Prints the seeds no run reported.
"""
import glob
import json
import os
import re
import shutil
import subprocess
import sys
from concurrent.futures import ThreadPoolExecutor

VERIF = os.path.dirname(os.path.dirname(os.path.abspath(__file__)))


def one(d):
    name = os.path.basename(d.rstrip("/"))
    prop = name.split("-")[0]
    try:
        meta = json.load(open(os.path.join(d, "meta.json")))
        caught = meta.get("verified_by_us", {}).get("caught_by", [])
        if prop not in caught and caught:
            prop = caught[0]
    except (OSError, ValueError):
        pass
    wt = "/tmp/reverify-%s-%d" % (name, os.getpid())
    r = subprocess.run(["git", "-C", "/repo", "worktree", "add", "-q", "--detach", wt, "HEAD"], stdout=subprocess.PIPE, stderr=subprocess.STDOUT, text=True)
    if r.returncode != 0:
        return name, prop, "worktree: " + r.stdout.strip(), []
    res = []
    try:
        a = subprocess.run(["git", "-C", wt, "apply", os.path.join(d, "patch.diff")], stdout=subprocess.PIPE, stderr=subprocess.STDOUT, text=True)
        if a.returncode != 0:
            return name, prop, "stale patch", []
        for seed in ("1", "2", "3"):
            c = subprocess.run([os.path.join(VERIF, "check"), prop, "--tier", "quick"], cwd=VERIF,
                               env=dict(os.environ, VERIF_REPO=wt, VERIF_SEED=seed), stdout=subprocess.PIPE, stderr=subprocess.STDOUT, text=True)
            sig = None
            for l in c.stdout.splitlines():
                if l.startswith("VIOLATION"):
                    try:
                        sig = json.load(open(l.split("replay=")[1])).get("sig")
                    except (OSError, ValueError, IndexError):
                        sig = "?"
            res.append((seed, c.returncode, sig))
            if c.returncode == 1:
                return name, prop, "caught", res
        return name, prop, "MISSED", res
    finally:
        subprocess.run(["git", "-C", "/repo", "worktree", "remove", "--force", wt], stdout=subprocess.DEVNULL, stderr=subprocess.DEVNULL)
        shutil.rmtree(wt, ignore_errors=True)


def main():
    a = sys.argv[1:]
    jobs = int(a[a.index("--jobs") + 1]) if "--jobs" in a else 3
    only = a[a.index("--only") + 1].split(",") if "--only" in a else None
    out = a[a.index("--out") + 1] if "--out" in a else "/tmp/reverify.json"

    def key(d):
        m = re.search(r"(C\d+)-seed(\d+)", d)
        return (m.group(1), int(m.group(2)))
    dirs = sorted(glob.glob(os.path.join(VERIF, "seeded", "*/")), key=key)
    if only:
        dirs = [d for d in dirs if os.path.basename(d.rstrip("/")).split("-")[0] in only]
    if "--min" in a:
        lo = int(a[a.index("--min") + 1])
        dirs = [d for d in dirs if key(d)[1] >= lo]
    results = {}
    with ThreadPoolExecutor(jobs) as ex:
        for name, prop, status, res in ex.map(one, dirs):
            results[name] = {"check": prop, "status": status, "runs": res}
            if status != "caught" or res[0][1] != 1:
                print(name, prop, status, res, flush=True)
    json.dump(results, open(out, "w"), indent=1)
    missed = [n for n, r in results.items() if r["status"] != "caught"]
    print("seeds: %d, caught: %d, not caught: %s" % (len(results), len(results) - len(missed), missed))
    return 1 if missed else 0


if __name__ == "__main__":
    sys.exit(main())
