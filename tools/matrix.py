#!/usr/bin/env python3
"""Run every quick check against every seeded change: tools/matrix.py [out.json]
(40 seeds x 20 checks; about an hour). Reports which checks alarm on which seed."""
import glob, json, os, subprocess, sys, shutil
VERIF = os.path.dirname(os.path.dirname(os.path.abspath(__file__)))
sys.path.insert(0, VERIF)
from checks_config import CHECKS
out = {}
for d in sorted(glob.glob(os.path.join(VERIF, "seeded", "*"))):
    name = os.path.basename(d)
    wt = "/tmp/matrix-%s-%d" % (name, os.getpid())
    subprocess.run(["git", "-C", "/repo", "worktree", "add", "-q", "--detach", wt, "HEAD"], check=True)
    try:
        subprocess.run(["git", "-C", wt, "apply", os.path.join(d, "patch.diff")], check=True)
        row = {}
        for prop in CHECKS:
            r = subprocess.run([os.path.join(VERIF, "check"), prop, "--tier", "quick"], cwd=VERIF, env=dict(os.environ, VERIF_REPO=wt, VERIF_SEED="1"),
                               stdout=subprocess.PIPE, stderr=subprocess.STDOUT, text=True)
            sig = None
            for l in r.stdout.splitlines():
                if l.startswith("VIOLATION"):
                    try:
                        sig = json.load(open(l.split("replay=")[1])).get("sig")
                    except Exception:
                        sig = "?"
            row[prop] = {"rc": r.returncode, "sig": sig}
        out[name] = row
        print(name, {p: (v["rc"], v["sig"]) for p, v in row.items() if v["rc"] != 0}, flush=True)
    finally:
        subprocess.run(["git", "-C", "/repo", "worktree", "remove", "--force", wt])
        shutil.rmtree(wt, ignore_errors=True)
json.dump(out, open(sys.argv[1] if len(sys.argv) > 1 else "/tmp/matrix.json", "w"), indent=1)
