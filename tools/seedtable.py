#!/usr/bin/env python3
"""Regenerate the table of DESIGN.md §9.6 from /verif/seeded/*/meta.json (stdout, or --write)."""
import glob
import json
import os
import re
import sys

V = os.path.dirname(os.path.dirname(os.path.abspath(__file__)))


def cell(s, n):
    s = re.sub(r"\s+", " ", str(s or "")).replace("|", "/")
    return s[:n]


def key(d):
    m = re.match(r"C(\d+)-seed(\d+)", os.path.basename(d))
    return int(m.group(1)), int(m.group(2))


rows = ["| seed | change | needs | caught by (quick) |", "|---|---|---|---|"]
for d in sorted(glob.glob(os.path.join(V, "seeded", "*")), key=key):
    m = json.load(open(os.path.join(d, "meta.json")))
    cb = ", ".join((m.get("verified_by_us") or {}).get("caught_by") or []) or "—"
    rows.append("| %s | %s | %s | %s |" % (os.path.basename(d), cell(m.get("summary"), 160), cell(m.get("needs"), 140), cb))
table = "\n".join(rows)
if "--write" in sys.argv:
    p = os.path.join(V, "DESIGN.md")
    s = open(p).read()
    a = s.index("| seed | change | needs | caught by (quick) |")
    b = s.index("\n\n", a)
    open(p, "w").write(s[:a] + table + s[b:])
else:
    print(table)
