#!/usr/bin/env python3
"""Confirm an independently written breaking change and run the checks against it.

  tools/seedeval.py <seed dir> <property id> [--checks C01,C02] [--tier quick] [--keep-as NAME]

<seed dir> holds patch.diff, demo/ (test file(s) + README.txt) and meta.json as
delivered by a sub-agent. Steps (all in scratch worktrees under /tmp, removed afterwards):
  1. patch applies to /repo HEAD and touches only non-test .go files
  2. the patched tree builds (with and without the verif tag) and passes the
     repository's own tests of the touched packages
  3. the demonstration fails with the patch and passes without it
  4. the named checks are run against the patched tree (VERIF_REPO)
On success with --keep-as the seed is copied to /verif/seeded/<NAME>/ with an
augmented meta.json.
"""
import glob
import json
import os
import re
import shutil
import subprocess
import sys
import time

ENV = dict(os.environ, GOFLAGS="-mod=mod", GOPROXY="off", GOSUMDB="off")


def sh(cmd, **kw):
    return subprocess.run(cmd, stdout=subprocess.PIPE, stderr=subprocess.STDOUT, text=True, **kw)


def worktree(tag):
    wt = "/tmp/seedeval-%s-%d" % (tag, os.getpid())
    r = sh(["git", "-C", "/repo", "worktree", "add", "-q", "--detach", wt, "HEAD"])
    if r.returncode != 0:
        raise SystemExit(r.stdout)
    return wt


def rm_worktree(wt):
    sh(["git", "-C", "/repo", "worktree", "remove", "--force", wt])
    shutil.rmtree(wt, ignore_errors=True)


def main():
    a = sys.argv[1:]
    seed, prop = os.path.abspath(a[0]), a[1]
    checks = [prop]
    if "--checks" in a:
        checks = a[a.index("--checks") + 1].split(",")
    tier = a[a.index("--tier") + 1] if "--tier" in a else "quick"
    keep = a[a.index("--keep-as") + 1] if "--keep-as" in a else None
    patch = os.path.join(seed, "patch.diff")
    out = {"seed": seed, "property": prop}
    files = re.findall(r"^\+\+\+ b/(\S+)", open(patch).read(), re.M)
    out["files"] = files
    bad = [f for f in files if not f.endswith(".go") or f.endswith("_test.go") or f.startswith("verifhook/")]
    if bad:
        out["error"] = "patch touches non-library files: %s" % bad
        print(json.dumps(out, indent=1))
        return 2
    pkgs = sorted({"./" + os.path.dirname(f) for f in files})
    demos = sorted(glob.glob(os.path.join(seed, "demo", "*_test.go")))
    tests = []
    for d in demos:
        tests += re.findall(r"^func (Test\w+)\(", open(d).read(), re.M)
    out["demo_tests"] = tests
    demo_pkg = pkgs[0]
    readme = os.path.join(seed, "demo", "README.txt")
    if os.path.exists(readme):
        m = re.search(r"\./(\w[\w/-]*)", open(readme).read())
        if m and os.path.isdir(os.path.join("/repo", m.group(1))):
            demo_pkg = "./" + m.group(1).rstrip("/")
    wt_p, wt_c = worktree("p"), worktree("c")
    try:
        r = sh(["git", "-C", wt_p, "apply", patch])
        if r.returncode != 0:
            out["error"] = "patch does not apply: " + r.stdout
            print(json.dumps(out, indent=1))
            return 2
        b = sh(["go", "build", "./..."], cwd=wt_p, env=ENV)
        b2 = sh(["go", "build", "-tags", "verif", "./..."], cwd=wt_p, env=ENV)
        out["builds"] = b.returncode == 0 and b2.returncode == 0
        t = sh(["go", "test", "-vet=off", "-count=1", "-timeout", "180s"] + pkgs, cwd=wt_p, env=ENV)
        out["own_tests_pass"] = t.returncode == 0
        if t.returncode != 0:
            out["own_tests_output"] = t.stdout[-1500:]
        # demonstration
        if demos and tests:
            res = {}
            for name, wt in (("with_change", wt_p), ("without_change", wt_c)):
                for d in demos:
                    shutil.copy(d, os.path.join(wt, demo_pkg))
                runre = "^(%s)$" % "|".join(tests)
                racef = ["-race"] if "--race" in a else []
                dr = sh(["go", "test", "-vet=off", "-count=1", "-timeout", "300s"] + racef + ["-run", runre, demo_pkg], cwd=wt, env=ENV)
                res[name] = "pass" if dr.returncode == 0 else "FAIL"
                if name == "with_change":
                    out["demo_output_with_change"] = dr.stdout[-800:]
                for d in demos:
                    os.remove(os.path.join(wt, demo_pkg, os.path.basename(d)))
            out["demo"] = res
        else:
            out["demo"] = "no go test demonstration found"
        confirmed = out["builds"] and out["own_tests_pass"] and isinstance(out["demo"], dict) and out["demo"] == {"with_change": "FAIL", "without_change": "pass"}
        out["confirmed"] = confirmed
        # our checks
        results = {}
        for c in checks:
            t0 = time.time()
            cr = sh(["/verif/check", c, "--tier", tier], cwd="/verif", env=dict(os.environ, VERIF_REPO=wt_p, VERIF_SEED=os.environ.get("VERIF_SEED", "1")))
            viol = [l for l in cr.stdout.splitlines() if l.startswith("VIOLATION")]
            results[c] = {"rc": cr.returncode, "wall_s": round(time.time() - t0, 1), "violation": viol[:1], "tail": cr.stdout.strip().splitlines()[-3:] if cr.returncode != 1 else []}
            if cr.returncode == 1 and viol:
                rp = viol[0].split("replay=")[1]
                try:
                    rf = json.load(open(rp))
                    results[c]["sig"] = rf.get("sig")
                    results[c]["message"] = (rf.get("message") or "")[:400]
                except (OSError, ValueError):
                    pass
        out["checks"] = results
        out["caught_by"] = [c for c, r in results.items() if r["rc"] == 1]
    finally:
        rm_worktree(wt_p)
        rm_worktree(wt_c)
    print(json.dumps(out, indent=1))
    if keep and out.get("confirmed"):
        dst = os.path.join("/verif/seeded", keep)
        shutil.rmtree(dst, ignore_errors=True)
        os.makedirs(dst)
        shutil.copy(patch, dst)
        shutil.copytree(os.path.join(seed, "demo"), os.path.join(dst, "demo"))
        meta = {}
        try:
            meta = json.load(open(os.path.join(seed, "meta.json")))
        except (OSError, ValueError):
            pass
        meta["verified_by_us"] = {
            "patch_applies_to": sh(["git", "-C", "/repo", "rev-parse", "--short", "HEAD"]).stdout.strip(),
            "builds": out["builds"], "own_tests_pass": out["own_tests_pass"], "demo": out["demo"],
            "commands": ["go build ./... (with and without -tags verif)", "go test -count=1 " + " ".join(pkgs),
                         "go test -run '%s' %s (demo copied into the package; with and without the patch)" % ("|".join(tests), demo_pkg)],
            "checks_run": {c: {"rc": r["rc"], "sig": r.get("sig"), "wall_s": r["wall_s"]} for c, r in results.items()},
            "caught_by": out["caught_by"], "tier": tier,
        }
        json.dump(meta, open(os.path.join(dst, "meta.json"), "w"), indent=1)
    return 0


if __name__ == "__main__":
    sys.exit(main())
