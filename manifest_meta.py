HOOK_COMMITS = ["7dfe795", "5b71e95", "d8eabb6"]
NOT_APPLICABLE = {}

_E1 = "E1 controlled scheduler (synctest bubble + verifhook tickets + rapid decision stream)"
META = {
    "C01": {
        "engine": _E1, "design_ref": "DESIGN.md §4 C01",
        "technique": "stateful property-based testing with a generated schedule (rapid + synctest-controlled interleaving), occupancy invariant + TryLock probes at quiescence",
        "text": "Generated Lock/TryLock/release/double-release/cancel/Locker histories over 2-32 ops with a generated interleaving of all Broadcast critical sections; mutual exclusion is checked at every acquisition with harness-owned occupancy counters and the lock state is probed against the model at every fully quiescent point. A second, free-running unit (TestC01Free) runs lock/try/double-release/concurrent-release programs with real parallelism and checks the same occupancy invariant, reaching windows between un-hooked atomic operations. Exploration of a bounded space, shrunk replayable counterexamples.",
        "note": "Assumes critical sections of broadcast.Broadcast are the only shared-state steps of csync (true for the anchored code; the hooks sit at their entry/exit). Bounded sizes; sampled, not exhaustive.",
    },
    "C02": {
        "engine": _E1, "design_ref": "DESIGN.md §4 C02",
        "technique": "stateful property-based testing with a generated schedule; liveness decided as a state predicate at synctest quiescence (blocked-while-grantable), writer-preference barrier, post-cancel probes",
        "text": "Same machine as C01 biased to waiters and cancellations. At every full-quiescence point a blocked Lock must be non-grantable under the lock's own rules, a cancelled Lock must have returned, TryLock probes must equal the model without cancelled calls, and a reader issued behind a waiting writer must not be granted before the writer acquired or gave up. A free-running unit (TestC02Free) keeps the RWMutex's internal mutex contended while a single writer's Lock calls are cancelled, and requires a read TryLock issued right after such a call returned to succeed. Controlled histories include a barging prefix (a waiter is woken while a newcomer takes and returns the lock) and the priority / uniform schedule modes.",
        "note": "Quiescence is exact inside the synctest bubble (all goroutines durably blocked), so no wall-clock grace period is used. Bounded histories.",
    },
    "C19": {
        "engine": "E4 input PBT (rapid) + native go fuzzing in the thorough tier", "design_ref": "DESIGN.md §4 C19",
        "technique": "property-based testing of round-trip / differential (naive reference) / metamorphic (read chunking) relations with boundary-biased generators; coverage-guided native fuzzing with the same oracles",
        "text": "PadInPlace/UnpadInPlace round trip and no-panic on arbitrary input, Prefix/TrimPrefix against a naive byte-wise longest-common-prefix, prng streams compared across chunkings and against the source's little-endian words. Lengths biased to 0, 32k±3 and spare capacity; alphabets include NUL, >=0x80 and invalid UTF-8. TestC19PrngPar builds sources concurrently from the same seeds and compares them with sequentially built ones.",
        "note": "Inputs up to 4 KiB (rapid) / fuzz-engine sized; the oracles assert exactly what the property states (no minimal-length or zero-fill requirement).",
    },
    "C20": {
        "engine": "E4 model-based PBT (rapid) over operation sequences; ioproxy inside a synctest bubble", "design_ref": "DESIGN.md §4 C20",
        "technique": "model-based property testing: generated call sequences with scripted short reads/errors compared step by step with reference models (section reader, byte counter, close-once state machine, map + notification replay); ioproxy traffic checked at synctest quiescence",
        "text": "Every call's return values are compared with an explicit reference model after every step; the wrapped streams are scripted (short counts, EOF, errors) and log each call so that 'not touched after Close' and 'read issued at the model position' are observable. unique: contents equal the model and the notification log replayed on the previous contents reproduces the new contents. Initial contents may be nil.",
        "note": "ReaderAtSeeker is built with the true size (documented precondition). Scripted streams respect the io.Reader/Writer contract (0 <= n <= len(p)). Removal notifications are only required to name the key.",
    },
    "C03": {
        "engine": _E1, "design_ref": "DESIGN.md §4 C03",
        "technique": "stateful PBT with generated schedule; channel-generation model + two-sided waiter oracle at synctest quiescence",
        "text": "Generated waiters/updaters/peekers on one Broadcast with a generated interleaving of critical sections, including broadcasts that land between a waiter's predicate check and its blocking receive. Every wait channel handed out carries the number of broadcasts before it and must be closed iff a later broadcast happened; Wait's return value is checked against the wrapped predicate; a blocked Wait at quiescence must have a false predicate and a live context. Waiters also use expired / expiring deadline contexts (virtual time), predicates that report done together with an error, and updates that broadcast twice inside one section. TestC03Free adds real contention incl. the asynchronous slow path of HoldLockMaybeAsync. Predicate errors include context.Canceled / DeadlineExceeded and errors wrapping them; whenever the predicate's last evaluation failed, exactly that error must be Wait's result, also if the context was cancelled meanwhile.",
        "note": "Broadcasters broadcast whenever they change the guarded state (documented usage). TryHoldLock/HoldLockMaybeAsync contention paths are only exercised by the free-running race programs (C13).",
    },
    "C15": {
        "engine": _E1, "design_ref": "DESIGN.md §4 C15",
        "technique": "model-based stateful PBT with generated schedule; sequential cell model advanced in critical-section grant order; waiter results checked against the value sampled in their last critical section; blocked-while-satisfied at quiescence",
        "text": "Writers (SetValue, SwapValue inc/const/nil), readers and all four waiter kinds with contexts and error channels over plain and custom equality; the model is advanced in the exact order the controller grants the critical sections, so every GetValue/SwapValue result and every waiter return is compared with the linearised cell history. TestC15Free checks lost updates / interleaved callbacks with real parallelism. TestC15Free additionally stamps SetValue writes (writer, sequence) on a second cell whose lock is kept busy: a goroutine never reads one of its own older stamps after its SetValue returned and one writer's stamps never go backwards for one reader. A comparator that never calls a zero operand equal; TestC15Free also checks a cell of 16-word values for torn reads.",
        "note": "One critical section per mutator call (true for the anchored code). Values 0..8, equality mod 4.",
    },
    "C11": {
        "engine": _E1, "design_ref": "DESIGN.md §4 C11",
        "technique": "stateful PBT with generated schedule over Promise and PromiseContainer; unique result values make every returned result attributable; spin detection by a grant budget; blocked-despite-result at synctest quiescence",
        "text": "Setters (incl. context sentinel errors as results), three awaiter kinds with contexts and channels, container replacement ops. Exactly one SetResult may return true, every value returned must be the winner's, a container awaiter may only return the result of a promise that was current after the awaiter's last quiescent block, blocked awaiters at quiescence must have no result, live context and silent channel. TestC11Free races setters and awaiters on several promises with real parallelism (exactly one winner, everybody sees it). An awaiter that keeps taking critical sections without blocking (grant budget exceeded) is reported as a spin. TestC11Free also drives a PromiseContainer with stamped promises: after its own SetPromise returned a goroutine never obtains one of its own older stamps, and one writer's stamps never go backwards for one reader. User promises may be constructed with their result (NewPromiseWithResult): every later SetResult must lose.",
        "note": "Open findings D16a/D16b (container AwaitWithErrCh/AwaitWithCancelCh ignore their channel while an unresolved promise is current) are excluded by construction and reported as KNOWN-FINDING; nil errors on error channels are not generated.",
    },
    "C16": {
        "engine": _E1, "design_ref": "DESIGN.md §4 C16",
        "technique": "stateful PBT with generated schedule; scripted function invocations (blocked until a generated Finish), call counting, stale-error and blocked-without-invocation oracles at quiescence",
        "text": "Callers are parked before the Once mutex and the wrapped function blocks until the generator finishes it with a value, an error or the initiator's context error, so arrival order relative to completion is a generated quantity. Checked: never two invocations at once, none after success, every value equals the success value, Canceled only for cancelled callers, errors come from an invocation, no caller re-uses an error that another caller had already received before it was issued, live callers are blocked only while an invocation is in flight. MemoizeFunc: exactly one invocation, everyone gets its result. Outcomes include a wrapped cancellation error of the initiating caller; TestC16Free repeats the call-count oracles with real parallelism on several objects. A caller whose context was cancelled before Resolve must get context.Canceled.",
        "note": "A function returning context.Canceled while all contexts are live is not generated (property leaves it open).",
    },
    "C17": {
        "engine": _E1, "design_ref": "DESIGN.md §4 C17",
        "technique": "PBT over argument lists and scripted outcomes with a generated schedule that can delay the caller right after each of its critical sections",
        "text": "0..8 functions incl. nil entries with scripted outcomes and a generated caller-cancel point; the functions park at entry so completion order is generated. Result checked against the multiset of outcomes observed at return, per-function invocation counts, context cancelled after return, no panic for any argument list. One third of the caller cancellations happen through a context whose Err() is DeadlineExceeded (the result must still be context.Canceled). Functions returning errors that wrap context.Canceled; the argument slice must be untouched and a second call with it runs every function exactly once again.",
        "note": "Functions that block do so on their context only.",
    },
    "C18": {
        "engine": _E1, "design_ref": "DESIGN.md §4 C18",
        "technique": "model-based stateful PBT with generated schedule; (queued,running) model advanced in critical-section order, ground-truth counters inside the jobs, probes at quiescence",
        "text": "Jobs block until the generator finishes them. Checked at every job start: active <= limit and single execution; at quiescence: Enqueue() equals both the model and the harness ground truth, no job waits while a slot is free, observers are not blocked while idle; WaitIdle nil implies all earlier jobs finished; limit 1 start order equals enqueue (critical-section) order; every reported pair satisfies queued>0 => running==limit. Observers get nil / non-nil errors on their error channel; TestC18Free checks limit, exactly-once and WaitIdle with real parallelism. Batches may contain nil funcs (tolerated by the queue; modelled with a FIFO backlog); TestC18Free runs pollers calling the zero-argument Enqueue() throughout, half of the cases beside a goroutine forcing preemption, and checks every returned pair. TestC18Free constructs the queue with 0/500/1000 short initial jobs and checks that the counters settle at (0,0) once all jobs ran.",
        "note": "Bounded: <= 60 ops, batches <= 4.",
    },
    "C04": {
        "engine": "E2/E1 controlled scheduler with scripted instances (exit latency is generated)", "design_ref": "DESIGN.md §4 C04",
        "technique": "stateful PBT with generated schedule and scripted user functions; overlap counter at function entry; returned wait channels checked against instance returns",
        "text": "Generated SetContext/SetRoutine/SetState/SetStateRoutine/RestartRoutine histories in which instances keep 'returning' until a generated Finish, with routine.exec and Broadcast tickets left parked across calls. The oracles do not depend on the reference machine: at every entry of the managed function no other instance may be executing; a channel returned by SetRoutine/SetState may only be closed once every instance of an earlier generation has returned, and no such instance may enter afterwards. Histories also contain the owner cancelling the container's root context directly (cancelroot).",
        "note": "Instance goroutines are bound to the reference machine's spawn tokens by creation order at the routine.exec hook.",
    },
    "C05": {
        "engine": _E1, "design_ref": "DESIGN.md §4 C05",
        "technique": "model-based stateful PBT with concurrent mutators; reference machine (Appendix A.2) advanced in critical-section grant order; cancellation checked when each mutator returns; survivor checked at quiescence",
        "text": "Concurrent mutator goroutines; the oracles use only the instances that were executing when a call's critical section was granted and the last granted context/state (no dependence on restart rules). TestC05Free repeats the superseded-implies-cancelled-on-return check with real lock contention; when a mutator returns, every instance it superseded (context replaced or cleared, routine/state replaced, restart) must have a cancelled context; at full quiescence at most one instance has a live context, only if a context, a routine and a non-empty state are set, and it carries the container's current context id and the most recently stored (unique) state. Histories also contain the owner cancelling the root context directly and WaitExited calls (some with an already cancelled waiter context) between the mutators. Optional coarse equality function for the state container (with equivalent-but-different states) and root contexts of a caller-defined Context type; TestC05Free also cancels the root context right before the superseding call.",
        "note": "The container's root context is never cancelled from outside (only replaced), see DESIGN Appendix A.2.",
    },
    "C14": {
        "engine": "E2 sequential histories in virtual time", "design_ref": "DESIGN.md §4 C14",
        "technique": "model-based PBT against the documented state machine in virtual time: scripted outcomes, scripted back-off, exact run/return-value/back-off-log/exit-callback/WaitExited comparison after every settled step",
        "text": "Runs, exits and waits are compared with the machine (mutator return values are only counted); the managed function is entered exactly by the instances the machine starts (success never re-run except by RestartRoutine/new routine; failure re-run by RestartRoutine, SetContext(restart) or the back-off timer at exactly t+b); NextBackOff/Reset call counts equal the machine's; current exits are reported exactly once to each exit callback; WaitExited returns exactly what was returnable at its last look and is never blocked at quiescence while returnable. TestC14Backoff drives the library's own back-off configuration (routine.WithRetry, exponential/constant, defaults) in virtual time with instances that run up to 40 minutes before failing. One third of the cases leave timer callbacks and exits parked across calls; the callback of a retry timer that was stopped after it had fired must have no effect. TestC14Backoff checks the exact configured schedule (initial*multiplier^k capped at max) and optionally runs a second, failing container built from the same Option value. Zero back-off intervals; option lists ending in WithRetry(nil)/WithBackoff(nil) (retrying disabled again).",
        "note": "A pending retry dropped by SetContext(other,false)/ClearContext follows the code (not asserted either way); exits of instances superseded by SetRoutine may be reported to callbacks (0 or 1 times).",
    },
    "C06": {
        "engine": "E2 sequential histories in virtual time", "design_ref": "DESIGN.md §4 C06",
        "technique": "model-based stateful PBT in virtual time: key-set reference model with exact removal deadlines; every return value and a full read-back compared after every step",
        "text": "Keyed and KeyedRefCount machines over 1..6 keys with and without release delay; AdvanceTime offsets straddle the delay (99/100/101 ms). After every operation and time advance GetKeys, GetKey for the whole universe and GetKeysWithData equal the model, as do existed/added/removed/data return values and the number of constructor calls. The callback of a removal timer that was stopped after it had fired (key requested again) must have no effect. Negative release delays (magnitude is used), reset/restart ops, and a scenario prefix in which another call lands on a key whose delayed removal is pending.",
        "note": "ResetRoutine is not generated here (it re-creates the record and drops a pending removal; property silent). Routines finish promptly (scripted kinds).",
    },
    "C07": {
        "engine": "E2/E1 controlled scheduler with scripted routines", "design_ref": "DESIGN.md §4 C07",
        "technique": "model-based stateful PBT with generated schedule: per-key reference machine advanced in mutex-section grant order, instance goroutines bound to machine tokens at the keyed.exec hook, timer callbacks identified by hook",
        "text": "Per key and incarnation no two instances execute at once; when a call returns every instance the machine says it removed/superseded/left without context has a cancelled context; instances enter the routine exactly when the machine starts them (start, restart, reset, back-off retry at exactly t+b), a retry that is due but never happens is reported, nothing runs for a removed key, back-off NextBackOff/Reset counts match. The callback of a retry timer that was stopped after it had fired (routine restarted) must have no effect. Zero back-off intervals; timer callbacks are matched to the machine's timers by firing order; an expired release delay with a live instance of that key is reported (not-cancelled-after-delay).",
        "note": "Overlap between a removed key's old routine and the routine of a re-added key is not asserted (new incarnation). Pending delayed removal across ResetRoutine follows the code.",
    },
    "C08": {
        "engine": _E1, "design_ref": "DESIGN.md §4 C08",
        "technique": "model-based stateful PBT with generated schedule; reference machine (Appendix A.4) advanced in mutex-section grant order; oracles run inside each release function and at synctest quiescence",
        "text": "Scripted resolver calls (values may repeat, errors incl. context.Canceled, the owner may cancel the root context from outside) (blocked until a generated Finish with value/error, with or without release func), AddRef/Release/SetContext/released() interleaved section by section. Each release function checks on the spot: first invocation, the machine already considers the value gone, the target container no longer holds it, every live reference was last told it is gone. At quiescence every value the machine says is gone has been released exactly once; at the end of the case (all references dropped, context cleared) every value with a release function has been released exactly once. TestC08Free counts release calls per value under real parallelism (context replaced continuously). At the end of every controlled case, with everything released and keep-unreferenced off, every value must already be released before the context is cleared (value-pinned-without-references). Resolver outcomes include the zero value of T.",
        "note": "released() is not called re-entrantly from inside a reference callback (TryLock failure path only under the race programs).",
    },
    "C09": {
        "engine": _E1, "design_ref": "DESIGN.md §4 C09",
        "technique": "model-based stateful PBT with generated schedule; exact per-reference callback sequences, container contents and resolver-call overlap checked against the reference machine",
        "text": "Resolver calls are bound to the machine's call tokens at the refcount.resolve hook; the resolver may never be entered while another call is executing nor by a goroutine the machine did not start; at quiescence target/targetErr equal the machine, every recording reference received exactly the machine's callback sequence (including references added after resolution), a wanted resolution is under way, superseded calls see a cancelled context. Panics of API calls are violations; a mutex left locked is reported through the hang watchdog and confirmed in a fresh process. A free-running unit (TestC09Free) replaces the context continuously while other goroutines add and release references: the resolver must never overlap, no callback may be told about a value whose release function has already run, and every unreleased reference's last callback must be the final value.",
        "note": "Bounded histories (<= 60 ops).",
    },
    "C10": {
        "engine": _E1, "design_ref": "DESIGN.md §4 C10",
        "technique": "model-based stateful PBT with generated schedule over Wait/Resolve/ResolveWithReleased/Access consumers with scripted callbacks",
        "text": "Consumers run as goroutines with their own contexts; Access callbacks block until a generated FinishAccessCb. Checked: returned values were delivered to the consumer's reference and are not released while held unless invalidated; released callbacks fire exactly once iff the machine invalidated after delivery; Access callbacks get delivered values, their context is cancelled by the next quiescence once the machine invalidates the value, Access re-invokes after invalidation and returns a callback result only if no event reached its reference between its look and its check; errors come from the resolver or the caller's cancellation; nobody stays blocked at quiescence when the machine says they can proceed. A caller cancellation that happens while the Access callback runs must be returned as context.Canceled; resolver outcomes include the zero value of T.",
        "note": "The 'between look and check' test uses the event count of the consumer's reference sampled at the grants of Access's private Broadcast sections.",
    },
    "C12": {
        "engine": "E1 controlled CAS interleaving + E3 real parallelism; porcupine as linearizability oracle", "design_ref": "DESIGN.md §4 C12",
        "technique": "generated concurrent histories (controller parks every goroutine between its top load and its compare-and-swap; plus free-running goroutines with random yields) checked for linearizability against a sequential stack/deque model with porcupine, plus element conservation after draining",
        "text": "CAS failures are forced by the schedule, so retry paths are exercised deterministically and shrunk; real-parallel programs cover the un-hooked interleavings. Every history is checked by porcupine (Pop returns zero exactly when the model stack is empty; LinkedList against a deque incl. PushFront/Peek/PeekTail/IsEmpty/Reset) and for lost / duplicated / invented elements. A retry loop that never terminates is reported as livelock. TestC12Burst: burst pushers and a single popper with real parallelism: when Pop returns the zero value every value whose Push had returned before must have been popped.",
        "note": "porcupine time-boxed at 5 s per history (timeouts counted, never reported as violations); histories <= 8 goroutines x 30 ops.",
    },
    "C13": {
        "engine": "E3 free-running generated client programs under the Go race detector", "design_ref": "DESIGN.md §4 C13",
        "technique": "generated client programs (random op sequences per goroutine over 18 concurrency-safe types) executed with real parallelism under -race with the hook points yielding at random; race reports attributed per program and filtered to accesses in non-test library files",
        "text": "A report counts iff the first non-toolchain frame of at least one of the two accesses lies in a non-test file of the repository (frames are classified by file path because generic instantiations carry the caller's package in their symbol name). Signature = the unordered pair of those frames. The failing program is saved and replayed 100 times.",
        "note": "Dynamic detection: only executed access pairs are seen; each distinct race is reported once per process. A panic without a race report is inconclusive (exit 2), not a C13 violation.",
    },
}
