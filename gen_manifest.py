#!/usr/bin/env python3
"""Regenerates MANIFEST.json from checks_config.py + manifest_meta.py."""
import json
from checks_config import CHECKS
from manifest_meta import META, NOT_APPLICABLE, HOOK_COMMITS

props = [json.loads(l) for l in open("properties.jsonl")]
checks = []
for p in props:
    pid = p["id"]
    if pid not in CHECKS:
        continue
    m = META[pid]
    checks.append({
        "property_id": pid,
        "quick_cmd": "./check %s --tier quick" % pid,
        "thorough_cmd": "./check %s --tier thorough" % pid,
        "evidence_file": "/verif/evidence/%s.json" % pid,
        "replay_cmd_template": "./check %s --replay {path}" % pid,
        "engine": m["engine"],
        "level_claimed": {"category": "exploration", "text": m["text"], "design_ref": m["design_ref"]},
        "level_note": m["note"],
        "technique": m["technique"],
    })
na = [{"property_id": p["id"], "reason": NOT_APPLICABLE.get(p["id"], "check not implemented yet in this revision of /verif (planned, see DESIGN.md §4)")}
      for p in props if p["id"] not in CHECKS]
man = {
    "version": 1,
    "setup_cmd": "./check --setup",
    "hooks": {
        "guard": "verif",
        "enable": "go1.26.8 test -tags verif (harness module replaces github.com/aperturerobotics/util with /repo, so every check recompiles /repo's working tree with the hooks on)",
        "baseline_off_cmd": "./check --baseline-off",
        "source_commits": HOOK_COMMITS,
        "add_only": True,
    },
    "engines": [
        {"name": "E1/E2 controlled scheduler", "path": "harness/sched", "kind_free_text": "rapid-generated histories + schedule decision stream executed in a testing/synctest bubble; goroutines park at verifhook points and are released one at a time; virtual time; oracles at quiescent points", "serves_properties": [c for c in CHECKS if META[c]["engine"].startswith("E1") or META[c]["engine"].startswith("E2")]},
        {"name": "E3 free-running programs under the race detector", "path": "harness/racex", "kind_free_text": "rapid-generated client programs run with real parallelism under -race", "serves_properties": [c for c in CHECKS if "E3" in META[c]["engine"]]},
        {"name": "E4 input PBT + native fuzzing", "path": "harness/codecx", "kind_free_text": "rapid properties / state machines against reference models; go test -fuzz in the thorough tier", "serves_properties": [c for c in CHECKS if "E4" in META[c]["engine"]]},
    ],
    "checks": checks,
    "not_applicable": na,
    "notes": "Single driver ./check; exit 0 ok, 1 VIOLATION, 2 inconclusive. VERIF_SEED selects the rapid seeds (per shard splitmix). known_findings.json lists open/fixed findings.",
}
json.dump(man, open("MANIFEST.json", "w"), indent=1)
print("claimed:", [c["property_id"] for c in checks])
