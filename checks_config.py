"""Table of checks: property -> units (test binaries / fuzz targets) and budgets."""


# budget multipliers (controlled cases are cheap: 0.1-0.5 ms each; free-running ones with real
# parallelism cost 1-5 ms and oversubscribe the cores, so their thorough budgets are smaller);
# thorough runs 16 processes per unit
QUICK_X = 2
THOROUGH_X = 4


def rapid(pkg, test, q, t, tshards=16, few_shards=None, **kw):
    u = {"kind": "rapid", "pkg": pkg, "test": test,
         "quick": {"checks": q * QUICK_X, "shards": 1},
         "thorough": {"checks": t * THOROUGH_X, "shards": max(tshards, 16)}}
    if few_shards:
        # units whose cases keep many goroutines spinning: a few processes at a time
        u["thorough"]["shards"] = few_shards
    u.update(kw)
    return u


def fuzz(pkg, target, secs, parallel=8):
    return {"kind": "fuzz", "pkg": pkg, "test": target, "thorough": {"fuzztime": secs, "parallel": parallel}}


CHECKS = {
    "C01": {"units": [rapid("freex", "TestC01Free", 1500, 800, 16), rapid("csyncx", "TestC01", 10000, 100000), rapid("csyncx", "TestC01ManyReaders", 15, 30, 2)]},
    "C02": {"units": [rapid("freex", "TestC02Free", 1000, 600, 16), rapid("csyncx", "TestC02", 10000, 100000)]},
    "C03": {"units": [rapid("freex", "TestC03Free", 1000, 600, 16), rapid("bcastx", "TestC03", 10000, 100000)]},
    "C04": {"units": [rapid("freex", "TestC04Free", 1000, 600, 16), rapid("routinex", "TestC04", 10000, 60000)]},
    "C05": {"units": [rapid("freex", "TestC05Free", 1500, 300, 16), rapid("freex", "TestC05FreeMix", 1500, 600, 16), rapid("routinex", "TestC05", 11000, 60000)]},
    "C12": {"units": [rapid("lifox", "TestC12Controlled", 6000, 10000), rapid("lifox", "TestC12Free", 1000, 1000, 16), rapid("lifox", "TestC12Burst", 4000, 1000, 8), rapid("lifox", "TestC12ListBurst", 1500, 800, 8), rapid("lifox", "TestC12PopRace", 60, 300, few_shards=2), rapid("lifox", "TestC12ListEnds", 60, 300, few_shards=4)]},
    "C13": {"units": [rapid("racex", "TestC13", 2500, 5000, 16, race=True, shrinktime="5s")]},
    "C14": {"units": [rapid("routinex", "TestC14Ctors", 400, 2000, 4), rapid("routinex", "TestC14Elapsed", 100, 400, 4), rapid("routinex", "TestC14Backoff", 1500, 5000, 8), rapid("routinex", "TestC14", 10000, 60000)]},
    "C06": {"units": [rapid("keyedx", "TestC06Keyed", 6000, 40000), rapid("keyedx", "TestC06RefCount", 6000, 40000)]},
    "C07": {"units": [rapid("freex", "TestC07Free", 1000, 600, 16), rapid("keyedx", "TestC07", 16000, 50000), rapid("keyedx", "TestC07Retry", 300, 500, 4)]},
    "C08": {"units": [rapid("freex", "TestC08Free", 1000, 600, 16), rapid("refcountx", "TestC08", 8000, 50000)]},
    "C09": {"units": [rapid("freex", "TestC09Free", 1000, 600, 16), rapid("refcountx", "TestC09", 8000, 50000)]},
    "C10": {"units": [rapid("refcountx", "TestC10", 12000, 60000)]},
    "C11": {"units": [rapid("freex", "TestC11Free", 1500, 800, 16), rapid("promisex", "TestC11", 10000, 80000)]},
    "C15": {"units": [rapid("freex", "TestC15Free", 1000, 800, 16), rapid("ccontx", "TestC15", 10000, 80000), rapid("ccontx", "TestC15VT", 5000, 40000, 4)]},
    "C16": {"units": [rapid("freex", "TestC16Free", 1500, 800, 16), rapid("promisex", "TestC16", 10000, 80000), rapid("promisex", "TestC16Seq", 4000, 20000, 4)]},
    "C17": {"units": [rapid("freex", "TestC17Free", 1000, 600, 16), rapid("freex", "TestC17FreeWide", 400, 400, 8), rapid("ccallx", "TestC17", 20000, 150000)]},
    "C18": {"units": [rapid("freex", "TestC18Free", 500, 400, 16), rapid("concx", "TestC18", 8000, 60000)]},
    "C19": {"units": [
        rapid("codecx", "TestC19Pad", 20000, 60000, 4),
        rapid("codecx", "TestC19Unpad", 20000, 60000, 4),
        rapid("codecx", "TestC19Prefix", 20000, 60000, 4),
        rapid("codecx", "TestC19Prng", 20000, 60000, 4),
        rapid("codecx", "TestC19PrngPar", 600, 300, 4),
        rapid("codecx", "TestC19PrefixPar", 150, 150, 4),
        rapid("codecx", "TestC19PadPar", 150, 150, 4),
        fuzz("codecx", "FuzzC19Unpad", 30),
        fuzz("codecx", "FuzzC19Pad", 30),
        fuzz("codecx", "FuzzC19Prefix", 30),
        fuzz("codecx", "FuzzC19Prng", 20),
    ]},
    "C20": {"units": [
        rapid("seqiox", "TestC20Seek", 10000, 60000, 4),
        rapid("seqiox", "TestC20Sizer", 10000, 60000, 4),
        rapid("seqiox", "TestC20Closer", 10000, 60000, 4),
        rapid("seqiox", "TestC20CloserPar", 1500, 3000, 8),
        rapid("seqiox", "TestC20SizerPar", 300, 600, 4),
        rapid("seqiox", "TestC20Unique", 10000, 60000, 4),
        rapid("seqiox", "TestC20Proxy", 5000, 30000, 8),
    ]},
}

ASSUMPTIONS = {
    "*": [
        "bounded exploration: generated histories/schedules up to the stated sizes; absence of violations beyond them is not established",
        "schedule control is at the granularity of the verif hook points (critical sections are atomic steps); interleavings inside a critical section are only produced by the free-running stress units",
        "Go 1.26.8 testing/synctest semantics for virtual time and quiescence",
    ],
}
