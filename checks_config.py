"""Table of checks: property -> units (test binaries / fuzz targets) and budgets."""


def rapid(pkg, test, q, t, tshards=12, **kw):
    u = {"kind": "rapid", "pkg": pkg, "test": test,
         "quick": {"checks": q, "shards": 1},
         "thorough": {"checks": t, "shards": tshards}}
    u.update(kw)
    return u


CHECKS = {
    "C01": {"units": [rapid("csyncx", "TestC01", 10000, 100000)]},
    "C02": {"units": [rapid("csyncx", "TestC02", 10000, 100000)]},
}

ASSUMPTIONS = {
    "*": [
        "bounded exploration: generated histories/schedules up to the stated sizes; absence of violations beyond them is not established",
        "schedule control is at the granularity of the verif hook points (critical sections are atomic steps); interleavings inside a critical section are only produced by the free-running stress units",
        "Go 1.26.8 testing/synctest semantics for virtual time and quiescence",
    ],
}
